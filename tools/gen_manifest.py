#!/usr/bin/env python3
"""Regenerates /verif/MANIFEST.json from the table below. A property is claimed as soon as its check
module exists under vlib/checks; everything else is listed under not_applicable with the reason."""
import json
import os
import subprocess

HERE = os.path.dirname(os.path.dirname(os.path.abspath(__file__)))

CHECKS = {
    'C01': dict(level='exploration', ref='2/C01', tech='runtime monitoring: generator-owned expression trees vs the VM\'s instruction listing and computed values, registry invariant on live VMs, ASan+UBSan build',
                text='Generated expression trees over the live operator registry are printed with minimal/redundant parentheses and parsed by the real parser; the emitted listing must be the post-order of the tree and values must equal those of the fully parenthesised text. Holds on the trees explored, not for all trees.',
                note='trusts the generator\'s printing rules (minimal parentheses) and the float32 evaluator; names ambiguous by the grammar itself are not generated'),
    'C02': dict(level='exploration', ref='2/C02', tech='runtime monitoring: statement traces of generated programs compared with a reference interpreter, ASan+UBSan build',
                text='Generated control-flow programs are executed by the real VM and by a small reference interpreter; statement traces and construct values must agree.',
                note='trusts the reference interpreter (relation where SQF semantics are silent)'),
    'C03': dict(level='exploration', ref='2/C03', tech='runtime monitoring: scope/namespace observations of generated programs compared with a reference interpreter',
                text='Generated programs that declare, shadow and read locals/globals across nested scopes, spawned scripts and with-blocks are run on the real VM; observations must equal the reference scope-chain model.',
                note='trusts the reference scope model'),
    'C04': dict(level='exploration', ref='2/C04', tech='runtime monitoring: marker/handler traces with injected faults, error-flag invariant at action boundaries (hook), run histories on one VM',
                text='Programs with one injected fault at a generated position are run; markers after the fault must not execute unless a handler took over exactly once, run results must agree with raised diagnostics, and the error flag must be clear at every action boundary across run histories.',
                note='trusts the fault pool (each member raises an error-level diagnostic) and the reference unwinding model'),
    'C05': dict(level='exploration', ref='2/C05', tech='runtime monitoring: online operand-stack partition monitor on instruction/frame hooks plus enclosing-expression value oracle',
                text='An online monitor checks frame-base monotonicity, untouched enclosing operands, one forwarded value per finished block and empty statement residue at every instruction boundary of hostile generated programs.',
                note='monitor invariants I1-I5 as documented in DESIGN.md; values compared with the reference interpreter'),
    'C06': dict(level='exploration', ref='2/C06', tech='runtime monitoring: in-VM round-trip oracle (call compile str v isEqualTo v; instruction listings), float32 literal oracle, pretty-printer re-parse',
                text='Generated values and code blocks are printed and recompiled inside the real VM; equality and instruction listings must match; literals must evaluate to nearest float32.',
                note='trusts isEqualTo on nil/NaN-free values (checked separately by C07) and python struct float32 rounding'),
    'C07': dict(level='exploration', ref='2/C07', tech='runtime monitoring: relation checks on generated value pairs/triples, hash probe, hashmap operation histories vs a reference dictionary',
                text='Symmetry/reflexivity/transitivity, ==/isEqualTo agreement and hash consistency are checked on colliding generated values; hashmap histories are compared step by step with a Python dict.',
                note='trusts the canonical structural key encoding of the reference dictionary'),
    'C08': dict(level='exploration', ref='2/C08', tech='runtime monitoring: alias-heap operation histories vs a reference heap model, cycle attempts, ASan stack-overflow and CPU watchdog',
                text='Random histories over aliased arrays/hashmaps run on the real VM and on a heap model; str of every live variable and the diagnostic class must match after each step; cycle attempts must be refused.',
                note='trusts the reference heap model'),
    'C09': dict(level='exploration', ref='2/C09', tech='sanitizers (ASan+UBSan incl. vptr, float-cast-overflow) + crash journal + CPU watchdog + allocation cap over boundary-value calls of every registered signature, incl. code arguments that mutate the container being walked',
                text='Every registered operator signature is called with boundary values of its registered types in an ASan+UBSan build; any crash, sanitizer report, escaped C++ exception, hang or oversized allocation is a violation.',
                note='clean sanitizer run is not memory safety; value pools are finite; LOCATION/TASK/DISPLAY/CONTROL/NetObject values cannot be constructed'),
    'C10': dict(level='fault_enumeration', ref='2/C10', tech='fault enumeration (all truncations, single-token mutations) of front-end inputs under ASan+UBSan with CPU watchdog, result-or-diagnostic and determinism oracles, CPU-time scaling ratio per input family; a sample of the inputs again under valgrind memcheck (uninstrumented build)',
                text='Every prefix and single-token mutation of corpus inputs is fed to the preprocessor, SQF parser and config parser (directly and through compile/preprocess__/configparse__); crash, sanitizer report, escaped exception, hang, silent failure or nondeterminism is a violation.',
                note='corpus-relative; linear-time claim checked as CPU budget proportional to input length'),
    'C11': dict(level='exploration', ref='2/C11', tech='runtime monitoring on a deterministic virtual clock (clock queries and blocking sleeps interposed): deadline monitor, abort diagnostics, loop iteration counters, run histories on aged VMs',
                text='Non-terminating programs of every loop kind run under a virtual clock; each run must end within limit+slack, report the time-limit diagnostic, leave the VM empty; aged VMs must run normally; while loops must respect the cap.',
                note='virtual time advances per clock query; slack is logical'),
    'C12': dict(level='exploration', ref='2/C12', tech='runtime monitoring: offline checker over slice logs recorded by scheduler hooks (fairness, wake-up times, scriptDone, terminate, solo-trace equality)',
                text='Slice logs of generated multi-script schedules under overridden slice budgets are checked offline against round-robin fairness, wake-up and termination rules; per-script traces must equal solo runs.',
                note='runnable set recomputed from the log'),
    'C13': dict(level='exploration', ref='2/C13', tech='runtime monitoring: preprocessor output of generated texts compared with a reference expander (exact inside strings, token-wise elsewhere)',
                text='Grammar-generated texts are preprocessed by the real preprocessor and by a reference expander; outputs must agree; strings inviolate; inactive branches absent.',
                note='trusts the reference expander on the generated sub-language'),
    'C14': dict(level='exploration', ref='2/C14', tech='runtime monitoring: reported diagnostic positions vs positions known by construction over generated source layouts',
                text='Culprit tokens are planted at known file/line/column behind generated layouts; parse/runtime diagnostics, stack traces and __LINE__/__FILE__ must name that position.',
                note='column convention calibrated on a bare file'),
    'C15': dict(level='exploration', ref='2/C15', tech='runtime monitoring: config queries on generated config texts compared with a reference config model; base-link cycle monitor; CPU watchdog',
                text='Generated config texts are loaded in sequence; every query path is evaluated by the VM and by a reference model; lookups must terminate.',
                note='trusts the reference config model; base names unambiguous by construction'),
    'C16': dict(level='exploration', ref='2/C16', tech='runtime monitoring: content tokens returned by file operators on generated sandbox trees vs a reference resolver, canary files outside roots',
                text='Generated mappings/trees/requests: the file content returned must be the token of the expected physical file and never that of a canary outside all roots.',
                note='relative-path meaning asserted only where the statement fixes it'),
    'C17': dict(level='fault_enumeration', ref='2/C17', tech='fault enumeration (every truncation point, byte flips, size-field corruptions) of archives from an independent packer under ASan+UBSan and again under valgrind memcheck (uninstrumented build), reference parser for damaged files, allocation monitor (sanitizer malloc hook), FS snapshot oracle, real CLI front end (vcli)',
                text='Archives from an independent Python packer must read back exactly; every truncation/corruption must be rejected or expose intact entries only, with no crash, over-allocation or file-system modification.',
                note='independent packer implements the documented PBO layout'),
    'C18': dict(level='exploration', ref='2/C18', tech='runtime monitoring: C API call histories vs a documented-return-code model, callback monitor, status and carry-over probes, virtual clock',
                text='Histories of API calls on several instances are run against the real export layer; return codes, callback data, idle status and carry-over must match the documented contract.',
                note='input classes known by construction'),
    'C19': dict(level='exploration', ref='2/C19', tech='runtime monitoring: exhaustive short action sequences vs a reference state machine with instruction-count hooks; ThreadSanitizer + executor-overlap counter + failpoint delays for controller/executor interleavings',
                text='All action sequences up to a bound from six base states (plus long random walks) are judged against the state machine and the instruction trace of an uninterrupted run; two-thread episodes (controller plans against an executing or parked executor, yields at failpoints) are observed by TSan, guard-occupancy and stop-latency counters and a liveness probe.',
                note='TSan sees only interleavings that happened'),
    'C20': dict(level='exploration', ref='2/C20', tech='runtime monitoring: byte-wise log comparison of P alone / after Q / beside Q (ThreadSanitizer build for the concurrent setting)',
                text='Logs of P in a fresh VM must be identical alone, after Q in the same process, and beside Q on another thread; TSan must report no race between instances.',
                note='time and random operators excluded from P'),
}

NOT_BUILT_REASON = 'check not built yet in this tree (design in DESIGN.md section %s); not claimed until its quick run is silent on the unchanged tree'


def main():
    checks = []
    na = []
    for pid in sorted(CHECKS):
        c = CHECKS[pid]
        mod = os.path.join(HERE, 'vlib', 'checks', pid.lower() + '.py')
        if os.path.exists(mod) and not os.path.exists(mod + '.disabled'):
            checks.append({
                'property_id': pid,
                'quick_cmd': './vcheck %s --tier quick' % pid,
                'thorough_cmd': './vcheck %s --tier thorough' % pid,
                'evidence_file': 'evidence/%s.json' % pid,
                'replay_cmd_template': './vcheck %s --replay {path}' % pid,
                'engine': 'vh',
                'level_claimed': {'category': c['level'], 'text': c['text'], 'design_ref': 'DESIGN.md ' + c['ref']},
                'level_note': c['note'],
                'technique': c['tech'],
            })
        else:
            na.append({'property_id': pid, 'reason': NOT_BUILT_REASON % c['ref']})
    try:
        commits = subprocess.check_output(['git', '-C', '/repo', 'log', '--format=%H %s', '260e879..HEAD'], text=True).strip().splitlines()
    except Exception:
        commits = []
    hook_commits = [l.split(' ', 1)[0] for l in commits if not l.split(' ', 1)[1].startswith('fix:')]
    man = {
        'version': 1,
        'setup_cmd': './build.sh asan && ./build.sh asan vcli && ./build.sh tsan && ./build.sh plain',
        'hooks': {
            'guard': 'SQFVM_RUNTIME_VERIF',
            'enable': 'harness/CMakeLists.txt compiles /repo/src/** (minus src/cli, src/sqc, src/unused) with -DSQFVM_RUNTIME_VERIF into the vh harness (flavours asan, tsan, plain under .build/)',
            'baseline_off_cmd': 'cmake --build /repo/_build && ctest --test-dir /repo/_build -j8 --timeout 900',
            'source_commits': hook_commits,
            'add_only': True,
        },
        'engines': [
            {'name': 'vh', 'path': 'harness/', 'serves_properties': [c['property_id'] for c in checks],
             'kind_free_text': 'C++ harness linking the repository sources with sanitizers and monitors on guarded hooks; driven by Python generators, reference models and offline checkers under vlib/'},
        ],
        'checks': checks,
        'not_applicable': na,
        'notes': 'All checks decide by observing executions of the real code (sanitizers + monitors). Known genuine defects are listed in known_findings.json; see DESIGN.md.',
    }
    with open(os.path.join(HERE, 'MANIFEST.json'), 'w') as f:
        json.dump(man, f, indent=1)
    print('claimed: %s' % ' '.join(c['property_id'] for c in checks))
    print('not claimed: %s' % ' '.join(e['property_id'] for e in na))


if __name__ == '__main__':
    main()
