#!/usr/bin/env python3
"""known_findings.json maintenance:  kf.py fix <finding-id> <commit>   |  kf.py list [PROP]  | kf.py drop <id>"""
import json, sys, os
P = os.path.join(os.path.dirname(os.path.dirname(os.path.abspath(__file__))), 'known_findings.json')
kf = json.load(open(P))
cmd = sys.argv[1]
if cmd == 'fix':
    fid, commit = sys.argv[2], sys.argv[3]
    e = [x for x in kf['open'] if x['id'] == fid]
    if not e:
        sys.exit('no open finding ' + fid)
    e = e[0]
    kf['open'].remove(e)
    e['status'] = 'fixed'
    e['commit'] = commit
    e['line'] = 'fixed: property=%s %s %s' % (e['property'], commit, e['what'])
    e.pop('signatures', None)
    e.pop('avoid', None)
    kf['fixed'].append(e)
elif cmd == 'drop':
    kf['open'] = [x for x in kf['open'] if x['id'] != sys.argv[2]]
elif cmd == 'list':
    for x in kf['open'] + kf['fixed']:
        if len(sys.argv) < 3 or x['property'] == sys.argv[2]:
            print(x['status'], x['property'], x['id'], '|', x['what'][:100])
json.dump(kf, open(P, 'w'), indent=1)
