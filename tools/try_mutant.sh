#!/bin/bash
# usage: try_mutant.sh <seeded-dir> <check-id> [tier]   -- applies the patch to /repo, runs the check, always reverts.
D=$(realpath "$1"); C=$2; T=${3:-quick}
cd /verif
git -C /repo diff --quiet || { echo "/repo has uncommitted changes"; exit 2; }
trap 'git -C /repo checkout -- . 2>/dev/null' EXIT INT TERM
git -C /repo apply "$D/patch.diff" || exit 2
timeout -k 10 1500 ./vcheck $C --tier $T > /tmp/try_$$.log 2>&1; rc=$?
git -C /repo checkout -- .
grep -v "^KNOWN-FINDING" /tmp/try_$$.log | tail -12
echo "== exit $rc"
rm -f /tmp/try_$$.log
