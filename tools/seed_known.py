#!/usr/bin/env python3
"""One-off helper: turns replays/<P>/_summary.json (violations seen on the unchanged tree, after triage
as genuine defects) into draft entries for known_findings.json. Entries are reviewed by hand afterwards."""
import json, re, sys, os
HERE = os.path.dirname(os.path.dirname(os.path.abspath(__file__)))
prop = sys.argv[1]
summ = json.load(open(os.path.join(HERE, 'replays', prop, '_summary.json')))
kf_path = os.path.join(HERE, 'known_findings.json')
kf = json.load(open(kf_path))
CLASSES = [
    ('floatcast', r'ubsan:N is outside the range of representable values of type T'),
    ('typeconf', r'(ubsan:(downcast of address|member call on|reference binding to null|load of)|asan:SEGV).*'),
    ('heapovf', r'asan:(heap-buffer-overflow|heap-use-after-free|stack-buffer-overflow|container-overflow).*'),
    ('alloc', r'asan:allocation-size-too-big'),
    ('stackovf', r'asan:stack-overflow'),
    ('div0', r'ubsan:division by zero'),
    ('exc', r'escaped-exception'),
    ('hang', r'hang'),
    ('intovf', r'ubsan:signed integer overflow.*'),
    ('ptrovf', r'ubsan:(addition|subtraction) of unsigned offset.*'),
]
have = {e['id'] for e in kf['open']}
for e in summ:
    key = e['key']
    parts = key.split('|')
    kind = parts[0]
    cls = None
    for name, pat in CLASSES:
        if re.match(pat, kind):
            cls = (name, pat)
            break
    if cls is None:
        cls = ('other', re.escape(kind))
    m = re.search(r'`(.*)`', e['desc'], re.S)
    probe = m.group(1) if m else None
    if prop != 'C09':
        probe = None
    if kind.startswith('escaped-exception'):
        fn = parts[1]; sig = r'escaped-exception\|%s\|.*' % re.escape(fn)
    elif kind.startswith('hang'):
        fn = parts[1]; sig = r'hang\|%s' % re.escape(fn)
    else:
        fn = parts[1]; sig = r'%s\|%s\|%s(\|.*)?' % (cls[1], re.escape(fn), re.escape(parts[2]))
    fid = '%s-%s-%s' % (prop.lower(), re.sub(r'[^a-z0-9_]+', '_', fn.lower())[:40], cls[0])
    if fid in have:
        for x in kf['open']:
            if x['id'] == fid and sig not in x['signatures']:
                x['signatures'].append(sig)
        continue
    have.add(fid)
    ent = {'property': prop, 'id': fid, 'status': 'open', 'what': '%s in %s (%s): %s' % (cls[0], fn, parts[2] if len(parts) > 2 else '', (('on `%s`' % probe) if probe else e['desc'][-160:])), 'signatures': [sig]}
    if probe and 'after' not in e['desc'].split('`')[-1]:
        ent['probe'] = probe
    kf['open'].append(ent)
json.dump(kf, open(kf_path, 'w'), indent=1)
print(len(kf['open']), 'open entries')
