#!/bin/bash
# usage: ingest_mutant.sh <id> <worktree>   -- copies a sub-agent's DELIVER/ into seeded/<id>/ (confirmation is a separate step)
set -e
HERE=$(cd "$(dirname "$0")/.." && pwd)
id=$1; wt=$2
[ -f "$wt/DELIVER/patch.diff" ] && [ -f "$wt/DELIVER/demo.sh" ] && [ -f "$wt/DELIVER/meta.json" ] || { echo "incomplete DELIVER in $wt"; exit 2; }
mkdir -p "$HERE/seeded/$id"
cp -r "$wt/DELIVER/." "$HERE/seeded/$id/"
find "$HERE/seeded/$id" -type f \( -name '*.o' -o -perm -u+x -size +200k \) -delete
python3 -c "import json,sys; json.load(open('$HERE/seeded/$id/meta.json'))"
ls -la "$HERE/seeded/$id"
