#!/bin/bash
# Independent confirmation of the seeded changes, in a scratch worktree of /repo (never in /repo itself):
#   for every seeded/<id>: patch applies, the tree builds, the 41 ctest cases pass with it,
#   demo FAILs with the change and PASSes without it.
# usage: confirm_mutants.sh [ids...]    results: /verif/seeded/_confirm/<id>.txt (one line each) and .log
set -u
HERE=$(cd "$(dirname "$0")/.." && pwd)
export CCACHE_DIR=${CCACHE_CONFIRM_DIR:-$HERE/.build/ccache_confirm}
export CCACHE_BASEDIR=/
WT=${CONFIRM_WT:-/tmp/confirm_wt}
OUT=$HERE/seeded/_confirm
mkdir -p "$OUT"
IDS=${@:-$(ls "$HERE/seeded" | grep -E '^C[0-9]+[A-Z]$')}
cleanup() { git -C /repo worktree remove --force "$WT" 2>/dev/null; rm -rf "$WT"; }
trap cleanup EXIT
cleanup
git -C /repo worktree add --detach "$WT" HEAD >/dev/null 2>&1 || { echo "cannot create worktree"; exit 2; }
cmake -G Ninja -S "$WT" -B "$WT/_build" -DCMAKE_BUILD_TYPE=RelWithDebInfo -DCMAKE_CXX_COMPILER_LAUNCHER=ccache >"$OUT/_configure.log" 2>&1 || { echo "configure failed"; exit 2; }
cmake --build "$WT/_build" -j16 >"$OUT/_build_clean.log" 2>&1 || { echo "clean build failed"; exit 2; }
( cd "$WT" && ctest --test-dir _build -j8 --timeout 900 2>&1 | tail -3 ) >"$OUT/_ctest_clean.log"
# demos against the unchanged tree first
for id in $IDS; do
  d=$HERE/seeded/$id
  ( cd "$WT" && timeout 600 bash "$d/demo.sh" "$WT/_build" ) >"$OUT/$id.clean.log" 2>&1
  echo $? >"$OUT/$id.clean.rc"
done
for id in $IDS; do
  d=$HERE/seeded/$id
  res="$id:"
  if ! git -C "$WT" apply "$d/patch.diff" 2>"$OUT/$id.apply.log"; then echo "$res patch does not apply" >"$OUT/$id.txt"; continue; fi
  if ! cmake --build "$WT/_build" -j16 >"$OUT/$id.build.log" 2>&1; then
    echo "$res does not build" >"$OUT/$id.txt"; git -C "$WT" checkout -- .; continue
  fi
  t=$(cd "$WT" && ctest --test-dir _build -j8 --timeout 900 2>&1 | grep "tests passed" | head -1)
  ( cd "$WT" && timeout 600 bash "$d/demo.sh" "$WT/_build" ) >"$OUT/$id.mut.log" 2>&1
  rcm=$?
  rcc=$(cat "$OUT/$id.clean.rc")
  echo "$res builds=yes; ctest='$t'; demo with change rc=$rcm ($(tail -1 "$OUT/$id.mut.log" | cut -c1-60)); demo without change rc=$rcc ($(tail -1 "$OUT/$id.clean.log" | cut -c1-60))" >"$OUT/$id.txt"
  git -C "$WT" checkout -- .
done
cmake --build "$WT/_build" -j16 >/dev/null 2>&1
for id in $IDS; do cat "$OUT/$id.txt"; done
