#!/usr/bin/env python3
"""Folds the results of tools/confirm_mutants.sh (seeded/_confirm) and tools/sweep_mutants.sh (seeded/_sweep) into
seeded/<id>/meta.json: what was confirmed independently, what was run, which check catches the change."""
import json
import os
import re
import subprocess
import sys

HERE = os.path.dirname(os.path.dirname(os.path.abspath(__file__)))
head = subprocess.check_output(['git', '-C', '/repo', 'rev-parse', '--short', 'HEAD'], text=True).strip()
rows = []
for d in sorted(os.listdir(os.path.join(HERE, 'seeded'))):
    if not re.fullmatch(r'C\d+[A-Z]', d):
        continue
    mp = os.path.join(HERE, 'seeded', d, 'meta.json')
    meta = json.load(open(mp))
    meta.setdefault('property', d[:3])
    meta['breaks'] = meta.get('property', d[:3])
    cf = os.path.join(HERE, 'seeded', '_confirm', d + '.txt')
    if os.path.exists(cf):
        line = open(cf).read().strip()
        m = re.search(r"ctest='([^']*)'; demo with change rc=(\d+) \((.*?)\); demo without change rc=(\d+) \((.*?)\)$", line)
        if m:
            ok = '100% tests passed' in m.group(1) and m.group(2) != '0' and m.group(4) == '0'
            meta['confirmed'] = {
                'ok': ok,
                'repo_head': head,
                'patch_applies': True, 'builds': True,
                'ctest_with_change': m.group(1),
                'demo_with_change': 'rc=%s %s' % (m.group(2), m.group(3)),
                'demo_without_change': 'rc=%s %s' % (m.group(4), m.group(5)),
                'what_i_ran': 'tools/confirm_mutants.sh in a scratch worktree of /repo HEAD (/tmp/confirm_wt, removed afterwards): git apply patch.diff; cmake --build _build; '
                              'ctest --test-dir _build -j8 --timeout 900; sh demo.sh _build (with the change); git checkout; the same demo against the unchanged build',
            }
        else:
            meta['confirmed'] = {'ok': False, 'repo_head': head, 'note': line}
    sf = os.path.join(HERE, 'seeded', '_sweep', d + '.txt')
    if os.path.exists(sf):
        line = open(sf).read().strip()
        m = re.search(r'check (C\d+) exit (\d+); (\d+) violation line\(s\); first: (.*)$', line)
        if m:
            meta['caught_by'] = {'check': m.group(1), 'tier': 'quick', 'exit': int(m.group(2)), 'violation_lines': int(m.group(3)), 'first_violation': m.group(4),
                                 'what_i_ran': 'tools/sweep_mutants.sh: patch applied in a scratch worktree (/tmp/sweep_wt), VERIF_REPO/VERIF_BUILD_ROOT/VERIF_OUT pointed at scratch locations, ./vcheck %s --tier quick' % m.group(1)}
        else:
            meta['caught_by'] = {'note': line}
    json.dump(meta, open(mp, 'w'), indent=1)
    rows.append((d, meta.get('confirmed', {}).get('ok'), meta.get('caught_by', {}).get('exit'), (meta.get('caught_by', {}).get('first_violation') or '')[:110]))
for r in rows:
    print('%-5s confirmed=%-5s check_exit=%-4s %s' % r)
