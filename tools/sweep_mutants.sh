#!/bin/bash
# Runs every seeded change against its check (quick tier) in a scratch worktree of /repo with its own build root and its own
# evidence/replay directory, so neither /repo nor the committed evidence is touched.
# usage: sweep_mutants.sh [ids...]   -> /verif/seeded/_sweep/<id>.txt
set -u
HERE=$(cd "$(dirname "$0")/.." && pwd)
WT=${SWEEP_WT:-/tmp/sweep_wt}
BR=${SWEEP_BUILD:-/tmp/sweep_build}
SO=${SWEEP_OUT:-/tmp/sweep_out}
OUT=$HERE/seeded/_sweep
mkdir -p "$OUT"
IDS=${@:-$(ls "$HERE/seeded" | grep -E '^C[0-9]+[A-Z]$')}
cleanup() { git -C /repo worktree remove --force "$WT" 2>/dev/null; rm -rf "$WT" "$BR" "$SO"; }
trap cleanup EXIT
cleanup
git -C /repo worktree add --detach "$WT" HEAD >/dev/null 2>&1 || { echo "cannot create worktree"; exit 2; }
mkdir -p "$BR" "$SO"
export VERIF_REPO=$WT VERIF_BUILD_ROOT=$BR VERIF_OUT=$SO CCACHE_DIR=$HERE/.build/ccache
cd "$HERE"
for id in $IDS; do
  chk=${id%?}
  if ! git -C "$WT" apply "$HERE/seeded/$id/patch.diff" 2>/dev/null; then echo "$id: patch does not apply" >"$OUT/$id.txt"; continue; fi
  timeout -k 10 2400 ./vcheck $chk --tier quick >"$OUT/$id.log" 2>&1; rc=$?
  git -C "$WT" checkout -- .
  v=$(grep -A1 "^VIOLATION" "$OUT/$id.log" | grep -v "^VIOLATION\|^--" | head -1 | cut -c1-300)
  echo "$id: check $chk exit $rc; $(grep -c '^VIOLATION' "$OUT/$id.log") violation line(s); first: $v" >"$OUT/$id.txt"
done
for id in $IDS; do cat "$OUT/$id.txt"; done
