#!/bin/bash
# Builds (or incrementally rebuilds) one flavour of the harness from /repo's current working tree.
# usage: build.sh asan|tsan|plain [target]
set -e
FLAV=${1:-asan}
TARGET=${2:-vh}
HERE=$(cd "$(dirname "$0")" && pwd)
REPO=${VERIF_REPO:-/repo}
BDIR=${VERIF_BUILD_ROOT:-$HERE/.build}/$FLAV
mkdir -p "$BDIR"
exec 9>"$BDIR/.lock"
flock 9
export CCACHE_DIR=${CCACHE_DIR:-$HERE/.build/ccache}
export CCACHE_BASEDIR=/
if [ ! -f "$BDIR/build.ninja" ]; then
  LAUNCH=""
  if command -v ccache >/dev/null 2>&1; then LAUNCH="-DCMAKE_CXX_COMPILER_LAUNCHER=ccache"; fi
  cmake -S "$HERE/harness" -B "$BDIR" -G Ninja -DCMAKE_CXX_COMPILER=clang++-14 -DREPO="$REPO" -DVH_FLAVOUR=$FLAV $LAUNCH >"$BDIR/cmake.log" 2>&1 || { cat "$BDIR/cmake.log"; exit 2; }
fi
if ! ninja -C "$BDIR" $TARGET >"$BDIR/ninja.log" 2>&1; then
  tail -50 "$BDIR/ninja.log"
  exit 2
fi
