#include "vm.h"
#include <cstring>
#include <chrono>
#include <sched.h>
#include "opcodes/end_statement.h"

#include <sched.h>
#include <algorithm>

using sqf::runtime::runtime;
using sqf::runtime::context;
using sqf::runtime::instruction;

static std::atomic<long long> g_seq{ 0 };
long long next_seq() { return g_seq.fetch_add(1) + 1; }

// ---------------------------------------------------------------- logger

// A long-running instruction on demand: while parking is enabled, a diag_log whose text contains VH_PARK
// keeps the executing thread inside that instruction until the controller releases it.
std::atomic<bool> g_park_enabled{ false };
std::atomic<int> g_parked{ 0 };
std::atomic<int> g_park_release{ 0 };

void CapLogger::log(const LogMessageBase& message)
{
    if (g_park_enabled.load() && message.getErrorCode() == 60019 && message.formatMessage().find("VH_PARK") != std::string::npos)
    {
        int ticket = g_parked.fetch_add(1) + 1;
        auto t0 = std::chrono::steady_clock::now();
        while (g_park_enabled.load() && g_park_release.load() < ticket && std::chrono::steady_clock::now() - t0 < std::chrono::seconds(10)) sched_yield();
    }
    LogEnt e;
    e.level = (int)message.getLevel();
    e.code = (long long)message.getErrorCode();
    e.text = message.formatMessage();
    e.t = vclock::now_ns();
    e.seq = next_seq();
    if (e.text.size() > max_text) { e.text.resize(max_text); e.text += "...<cut>"; }
    if (auto rl = dynamic_cast<const logmessage::RuntimeLogMessageBase*>(&message))
    {
        auto loc = rl->location();
        e.has_loc = true;
        e.line = (long long)loc.line;
        e.col = (long long)loc.col;
        e.path = loc.path;
    }
    std::lock_guard<std::mutex> g(mtx);
    if (entries.size() >= max_entries) { dropped++; return; }
    entries.push_back(std::move(e));
}

vj::value CapLogger::drain()
{
    std::lock_guard<std::mutex> g(mtx);
    auto arr = vj::value::arr();
    for (auto& e : entries)
    {
        auto it = vj::value::arr();
        it.push(e.level).push(e.code).push(e.text);
        if (e.has_loc) { it.push(e.line).push(e.col).push(e.path); } else { it.push(0).push(0).push(""); }
        it.push(e.t).push(e.seq);
        arr.push(it);
    }
    entries.clear();
    if (dropped) { auto it = vj::value::arr(); it.push(-1).push((long long)dropped).push("<dropped>"); arr.push(it); dropped = 0; }
    return arr;
}

// ---------------------------------------------------------------- registry of monitors

static const int MAXMON = 16;
static std::atomic<runtime*> g_keys[MAXMON];
static VMMon* g_mons[MAXMON];
static std::mutex g_reg_mtx;

static inline VMMon* find_mon(runtime& r)
{
    for (int i = 0; i < MAXMON; i++)
    {
        if (g_keys[i].load(std::memory_order_acquire) == &r) return g_mons[i];
    }
    return nullptr;
}

VMMon* monitor_attach(runtime* rt)
{
    std::lock_guard<std::mutex> g(g_reg_mtx);
    for (int i = 0; i < MAXMON; i++)
    {
        if (g_keys[i].load() == nullptr)
        {
            auto m = new VMMon();
            m->rt = rt;
            g_mons[i] = m;
            g_keys[i].store(rt, std::memory_order_release);
            return m;
        }
    }
    return nullptr;
}
void monitor_detach(runtime* rt)
{
    std::lock_guard<std::mutex> g(g_reg_mtx);
    for (int i = 0; i < MAXMON; i++)
    {
        if (g_keys[i].load() == rt)
        {
            g_keys[i].store(nullptr, std::memory_order_release);
            g_mons[i] = nullptr; // the VMMon itself is owned by the VM
        }
    }
}

VM::~VM()
{
    if (rt) { monitor_detach(rt.get()); }
}

// ---------------------------------------------------------------- helpers

void VMMon::scan_contexts(runtime& r)
{
    // ids are handed out in the order of the runtime's context list, i.e. in creation order
    for (auto it = r.context_begin(); it != r.context_end(); ++it)
    {
        bool known = false;
        for (auto& w : ctx_ids)
        {
            auto sp = w.lock();
            if (sp && sp.get() == it->get()) { known = true; break; }
        }
        if (!known) ctx_ids.push_back(*it);
    }
}

void VMMon::track_contexts(runtime& r)
{
    scan_contexts(r);
    if (ctx_term_seen.size() < ctx_ids.size()) { ctx_term_seen.resize(ctx_ids.size(), 0); ctx_gone.resize(ctx_ids.size(), 0); ctx_finished.resize(ctx_ids.size(), 0); }
    for (size_t id = 0; id < ctx_ids.size(); id++)
    {
        if (ctx_gone[id]) continue;
        auto sp = ctx_ids[id].lock();
        bool in_list = false;
        if (sp)
        {
            for (auto it = r.context_begin(); it != r.context_end(); ++it) { if (it->get() == sp.get()) { in_list = true; break; } }
        }
        if (in_list) { ctx_term_seen[id] = sp->terminate() ? 1 : 0; }
        else
        {
            ctx_gone[id] = 1;
            if (!ctx_finished[id] && slice_log.size() > 0) drops.push_back({ (int)id, ctx_term_seen[id] != 0, next_seq() });
        }
    }
}

int VMMon::ctx_id(runtime& r, context& c)
{
    scan_contexts(r);
    for (size_t i = 0; i < ctx_ids.size(); i++)
    {
        auto sp = ctx_ids[i].lock();
        if (sp && sp.get() == &c) return (int)i;
    }
    // find the shared_ptr owning c
    for (auto it = r.context_begin(); it != r.context_end(); ++it)
    {
        if (it->get() == &c) { ctx_ids.push_back(*it); return (int)ctx_ids.size() - 1; }
    }
    auto act = r.context_active_as_shared();
    if (act && act.get() == &c) { ctx_ids.push_back(act); return (int)ctx_ids.size() - 1; }
    return -1;
}

Shadow& VMMon::shadow_of(runtime& r, context& c)
{
    int id;
    if (last_ctx == &c && last_ctx_id >= 0 && (size_t)last_ctx_id < ctx_ids.size() && ctx_ids[last_ctx_id].lock().get() == &c)
    {
        id = last_ctx_id;
    }
    else
    {
        id = ctx_id(r, c);
        last_ctx = &c; last_ctx_id = id;
    }
    if (id < 0) { shadow_unknown.valid = false; return shadow_unknown; }
    if (shadows.size() <= (size_t)id) shadows.resize((size_t)id + 1);
    return shadows[(size_t)id];
}

static void viol(VMMon& m, const std::string& what)
{
    if (m.stack_viol.size() < 20) m.stack_viol.push_back(what);
}

static void snap(context& c, Snap& s)
{
    s.bases.clear(); s.vals.clear(); s.positions.clear();
    for (auto it = c.frames_rbegin(); it != c.frames_rend(); ++it) { s.bases.push_back(it->value_stack_pos()); s.positions.push_back(it->position()); }
    std::reverse(s.bases.begin(), s.bases.end());
    std::reverse(s.positions.begin(), s.positions.end());
    for (auto it = c.values_begin(); it != c.values_end(); ++it) { s.vals.push_back(it->data().get()); }
}

static thread_local Snap tl_snap;

static std::string describe(const instruction& i)
{
    auto s = i.to_string();
    if (s.size() > 80) { s.resize(80); }
    auto d = i.diag_info();
    return s + " @L" + std::to_string(d.line) + "C" + std::to_string(d.column);
}

// Check the monitor invariants between the shadow (earlier observation) and now.
// instr_caused: the transition was performed by one instruction (before->after); otherwise it is a
// runtime-internal transition (frame completion, exit behaviours, error unwinding).
static void check_transition(VMMon& m, Shadow& sh, context& c, const Snap& now, const instruction* ins, bool instr_caused)
{
    m.stack_checks++;
    // I1: bases monotone, top base <= height
    for (size_t i = 1; i < now.bases.size(); i++)
    {
        if (now.bases[i] < now.bases[i - 1]) { viol(m, "I1 frame bases not monotone at " + (ins ? describe(*ins) : std::string("?"))); break; }
    }
    if (!now.bases.empty() && now.bases.back() > now.vals.size())
    {
        viol(m, "I1 top frame base " + std::to_string(now.bases.back()) + " above stack height " + std::to_string(now.vals.size()) + " at " + (ins ? describe(*ins) : std::string("?")));
    }
    if (!sh.valid || sh.ctx != &c) return;
    size_t d0 = sh.s.bases.size(), d1 = now.bases.size();
    size_t mm = std::min(d0, d1);
    if (mm == 0) return;
    size_t limit = (d1 >= d0) ? sh.s.bases[d0 - 1] : sh.s.bases[d1];
    // I2: operands below the executing (or lowest popped) frame are untouched
    if (now.vals.size() < limit)
    {
        viol(m, "I2 operands of an enclosing scope were consumed: height " + std::to_string(now.vals.size()) + " < protected " + std::to_string(limit) + " after " + (ins ? describe(*ins) : std::string("internal")));
    }
    else
    {
        for (size_t i = 0; i < limit && i < sh.s.vals.size(); i++)
        {
            if (now.vals[i] != sh.s.vals[i]) { viol(m, "I2 operand " + std::to_string(i) + " of an enclosing scope replaced after " + (ins ? describe(*ins) : std::string("internal"))); break; }
        }
    }
    // bases of surviving frames below the executing one do not move
    for (size_t i = 0; i + 1 < mm; i++)
    {
        if (now.bases[i] != sh.s.bases[i]) { viol(m, "I2 base of enclosing frame moved after " + (ins ? describe(*ins) : std::string("internal"))); break; }
    }
    // I5: an instruction that pops frames and returns into a frame that continues its expression
    //     (same position) hands over at most one value
    if (instr_caused && d1 < d0 && d1 >= 1 && now.positions[d1 - 1] == sh.s.positions[d1 - 1])
    {
        if (now.vals.size() > sh.s.bases[d1] + 1)
        {
            viol(m, "I5 " + std::to_string(now.vals.size() - sh.s.bases[d1]) + " values handed to the enclosing expression by " + (ins ? describe(*ins) : std::string("?")));
        }
    }
}

// ---------------------------------------------------------------- hooks

static void h_exec_enter(runtime& r, size_t& budget)
{
    auto m = find_mon(r);
    if (!m) return;
    int n = m->in_exec.fetch_add(1) + 1;
    int prev = m->max_in_exec.load();
    while (n > prev && !m->max_in_exec.compare_exchange_weak(prev, n)) {}
    m->slices.fetch_add(1);
    if (m->budget_override && budget > 1) budget = m->budget_override;
    if (m->mon_slices)
    {
        m->track_contexts(r);
        VMMon::Slice s{};
        auto& c = r.context_active();
        s.ctx = m->ctx_id(r, c);
        s.known0 = (int)m->ctx_ids.size();
        s.seq0 = next_seq();
        s.terminated = c.terminate();
        s.t0 = vclock::now_ns();
        s.budget = budget;
        s.n = 0;
        s.can_suspend = c.can_suspend();
        m->cur_slice_start_instr = m->instr.load();
        if (m->slice_log.size() < 2000000) m->slice_log.push_back(s);
    }
}
static void h_exec_leave(runtime& r, int res)
{
    auto m = find_mon(r);
    if (!m) return;
    m->in_exec.fetch_sub(1);
    if (m->mon_slices && !m->slice_log.empty())
    {
        auto& s = m->slice_log.back();
        auto sp = r.context_active_as_shared();
        s.t1 = vclock::now_ns();
        s.n = m->instr.load() - m->cur_slice_start_instr;
        s.res = res;
        if (res == (int)runtime::result::empty && s.ctx >= 0)
        {
            if (m->ctx_finished.size() <= (size_t)s.ctx) { m->ctx_finished.resize((size_t)s.ctx + 1, 0); }
            m->ctx_finished[(size_t)s.ctx] = 1;
        }
        m->track_contexts(r);
        s.known1 = (int)m->ctx_ids.size();
        s.seq1 = next_seq();
        if (sp)
        {
            s.susp = sp->suspended();
            s.wake = s.susp ? (long long)std::chrono::duration_cast<std::chrono::nanoseconds>(sp->wakeup_timestamp().time_since_epoch()).count() - 1700000000LL * 1000000000LL : 0;
            s.empty_after = sp->empty();
        }
    }
    if (m->mon_stack)
    {
        // the shadows are kept per script: when a script gets its next slice, the transition from its last observed state
        // is checked like any other (nothing may have touched its operands while it was switched out)
        (void)m;
    }
}
static void h_before(runtime& r, context& c, const instruction& ins)
{
    auto m = find_mon(r);
    if (!m) return;
    if (m->concurrent && r.is_exit_requested())
    {
        long long k = m->after_flag_cur.fetch_add(1) + 1;
        long long prev = m->after_flag_max.load();
        while (k > prev && !m->after_flag_max.compare_exchange_weak(prev, k)) {}
    }
    if (m->trace_max && m->trace.size() < m->trace_max)
    {
        auto d = ins.diag_info();
        m->trace.push_back({ m->ctx_id(r, c), (long long)d.line, (long long)d.column, ins.to_string(), c.frames_size() });
    }
    if (m->mon_stack)
    {
        auto& sh = m->shadow_of(r, c);
        snap(c, tl_snap);
        check_transition(*m, sh, c, tl_snap, &ins, false);
        sh.s = tl_snap; sh.ctx = &c; sh.valid = true;
        if (tl_snap.vals.size() > m->max_values) m->max_values = tl_snap.vals.size();
        if (tl_snap.bases.size() > m->max_frames) m->max_frames = tl_snap.bases.size();
    }
}
static void h_after(runtime& r, context& c, const instruction& ins)
{
    auto m = find_mon(r);
    if (!m) return;
    m->instr.fetch_add(1);
    if (m->tick_ns) vclock::advance_ns(m->tick_ns);
    if (m->mon_stack)
    {
        auto& sh = m->shadow_of(r, c);
        snap(c, tl_snap);
        check_transition(*m, sh, c, tl_snap, &ins, true);
        if (dynamic_cast<const sqf::opcodes::end_statement*>(&ins))
        {
            m->endstatements++;
            if (!tl_snap.bases.empty() && tl_snap.vals.size() != tl_snap.bases.back())
            {
                viol(*m, "I4 " + std::to_string(tl_snap.vals.size() - tl_snap.bases.back()) + " operands remain after statement separator at " + describe(ins));
            }
        }
        sh.s = tl_snap; sh.ctx = &c; sh.valid = true;
    }
}
static void h_frame_done(runtime& r, context& c, bool forwarded)
{
    auto m = find_mon(r);
    if (!m) return;
    m->frames_done++;
    if (forwarded) m->frames_forwarded++;
    if (m->mon_stack)
    {
        auto& sh = m->shadow_of(r, c);
        snap(c, tl_snap);
        if (sh.valid && sh.ctx == &c && sh.s.bases.size() == tl_snap.bases.size() + 1)
        {
            size_t base = sh.s.bases.back();
            size_t expect = base + (forwarded ? 1 : 0);
            if (tl_snap.vals.size() != expect)
            {
                viol(*m, "I3 finished block left height " + std::to_string(tl_snap.vals.size()) + " instead of base " + std::to_string(base) + " + " + (forwarded ? "1" : "0"));
            }
            // operands of the caller (below the finished frame's base) intact
            for (size_t i = 0; i < base && i < tl_snap.vals.size() && i < sh.s.vals.size(); i++)
            {
                if (tl_snap.vals[i] != sh.s.vals[i]) { viol(*m, "I3 caller operand " + std::to_string(i) + " changed by finished block"); break; }
            }
        }
        sh.s = tl_snap; sh.ctx = &c; sh.valid = true;
    }
}
static void h_action_enter(runtime& r, int action)
{
    (void)r; (void)action;
}
static void h_action_leave(runtime& r, int action, int result)
{
    auto m = find_mon(r);
    if (!m) return;
    // only the actions that own the run flag may be judged: stop/abort-on-running return while the executor still runs
    if (action == (int)runtime::action::stop) return;
    if (result == (int)runtime::result::action_error) return;
    if (m->concurrent) return;      // two threads leave actions; the boundary counters belong to single-threaded workloads
    m->boundary_checks++;
    if (r.__runtime_error()) m->boundary_flag_set++;
    if (!r.log_messages.empty()) m->boundary_pending++;
}
static void h_failpoint(runtime& r, const char* name)
{
    auto m = find_mon(r);
    if (!m) return;
    m->failpoints.fetch_add(1);
    if (!strcmp(name, "acquired"))
    {
        int n = m->owners.fetch_add(1) + 1;
        int prev = m->max_owners.load();
        while (n > prev && !m->max_owners.compare_exchange_weak(prev, n)) {}
        m->after_flag_cur.store(0);
    }
    else if (!strcmp(name, "before_release"))
    {
        m->owners.fetch_sub(1);
    }
    if (!m->concurrent) return;
    // xorshift; decide how long to yield
    unsigned long long x = m->fp_rng.load();
    x ^= x << 13; x ^= x >> 7; x ^= x << 17;
    m->fp_rng.store(x);
    int k = (int)(x % 8);
    (void)name;
    for (int i = 0; i < k; i++) sched_yield();
}

void monitors_install()
{
    auto& h = sqf::runtime::verif::hooks;
    h.exec_enter = h_exec_enter;
    h.exec_leave = h_exec_leave;
    h.before_instruction = h_before;
    h.after_instruction = h_after;
    h.frame_done = h_frame_done;
    h.action_enter = h_action_enter;
    h.action_leave = h_action_leave;
    h.failpoint = h_failpoint;
}

void VMMon::reset_run()
{
    trace.clear();
    slice_log.clear();
    drops.clear();
}

vj::value VMMon::report(bool with_logs)
{
    auto o = vj::value::obj();
    o.set("instr", instr.load());
    o.set("slices", slices.load());
    o.set("max_in_exec", max_in_exec.load());
    o.set("failpoints", failpoints.load());
    o.set("frames_done", frames_done);
    o.set("frames_forwarded", frames_forwarded);
    o.set("boundary_checks", boundary_checks);
    o.set("boundary_flag_set", boundary_flag_set);
    o.set("boundary_pending", boundary_pending);
    if (mon_stack)
    {
        o.set("stack_checks", stack_checks);
        o.set("endstatements", endstatements);
        o.set("max_values", (long long)max_values);
        o.set("max_frames", (long long)max_frames);
        auto a = vj::value::arr();
        for (auto& s : stack_viol) a.push(s);
        o.set("stack_viol", a);
    }
    if (with_logs && mon_slices)
    {
        auto a = vj::value::arr();
        for (auto& s : slice_log)
        {
            auto e = vj::value::arr();
            e.push(s.ctx).push(s.t0).push(s.t1).push(s.n).push(s.res).push(s.susp).push(s.wake).push((long long)s.budget).push(s.can_suspend).push(s.empty_after).push(s.known0).push(s.known1).push(s.terminated).push(s.seq0).push(s.seq1);
            a.push(e);
        }
        o.set("slice_log", a);
    }
    if (with_logs && mon_slices)
    {
        auto a = vj::value::arr();
        for (auto& d : drops) { auto e = vj::value::arr(); e.push(d.ctx).push(d.term).push(d.seq); a.push(e); }
        o.set("drops", a);
    }
    if (with_logs && trace_max)
    {
        auto a = vj::value::arr();
        for (auto& t : trace)
        {
            auto e = vj::value::arr();
            e.push(t.ctx).push(t.line).push(t.col).push(t.text).push((long long)t.frames);
            a.push(e);
        }
        o.set("trace", a);
    }
    return o;
}
