// Virtual clock: CLOCK_REALTIME (what std::chrono::system_clock uses) becomes a
// deterministic function of the execution: every query advances it by a fixed
// delta, and the harness may add idle time explicitly. All other clocks go to
// the kernel.
#include "vclock.h"
#include <atomic>
#include <ctime>
#include <unistd.h>
#include <sys/syscall.h>

namespace vclock
{
    static std::atomic<long long> g_now_ns{ 1700000000LL * 1000000000LL };
    static std::atomic<long long> g_delta_ns{ 1000 };
    static std::atomic<long long> g_queries{ 0 };
    static std::atomic<bool> g_enabled{ true };

    static const long long BASE_NS = 1700000000LL * 1000000000LL;
    long long now_ns() { return g_now_ns.load() - BASE_NS; }
    void advance_ns(long long ns) { g_now_ns.fetch_add(ns); }
    void set_delta_ns(long long ns) { g_delta_ns.store(ns); }
    long long queries() { return g_queries.load(); }
    void enable(bool flag) { g_enabled.store(flag); }
    void reset() { g_now_ns.store(BASE_NS); g_delta_ns.store(1000); g_queries.store(0); }
}

extern "C" int clock_gettime(clockid_t id, struct timespec* ts)
{
    if (id == CLOCK_REALTIME && vclock::g_enabled.load(std::memory_order_relaxed))
    {
        long long d = vclock::g_delta_ns.load(std::memory_order_relaxed);
        long long t = vclock::g_now_ns.fetch_add(d) + d;
        vclock::g_queries.fetch_add(1, std::memory_order_relaxed);
        ts->tv_sec = t / 1000000000LL;
        ts->tv_nsec = t % 1000000000LL;
        return 0;
    }
    return (int)syscall(SYS_clock_gettime, id, ts);
}
