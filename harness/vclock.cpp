// Virtual clock: CLOCK_REALTIME (what std::chrono::system_clock uses) becomes a
// deterministic function of the execution: every query advances it by a fixed
// delta, and the harness may add idle time explicitly. All other clocks go to
// the kernel.
#include "vclock.h"
#include <atomic>
#include <cerrno>
#include <ctime>
#include <unistd.h>
#include <sys/syscall.h>

namespace vclock
{
    static std::atomic<long long> g_now_ns{ 1700000000LL * 1000000000LL };
    static std::atomic<long long> g_delta_ns{ 1000 };
    static std::atomic<long long> g_queries{ 0 };
    static std::atomic<bool> g_enabled{ true };

    static const long long BASE_NS = 1700000000LL * 1000000000LL;
    long long now_ns() { return g_now_ns.load() - BASE_NS; }
    void advance_ns(long long ns) { g_now_ns.fetch_add(ns); }
    void set_delta_ns(long long ns) { g_delta_ns.store(ns); }
    long long queries() { return g_queries.load(); }
    void enable(bool flag) { g_enabled.store(flag); }
    static std::atomic<long long> g_sleeps{ 0 };
    static std::atomic<long long> g_slept_ns{ 0 };
    long long sleeps() { return g_sleeps.load(); }
    long long slept_ns() { return g_slept_ns.load(); }
    void reset() { g_now_ns.store(BASE_NS); g_delta_ns.store(1000); g_queries.store(0); g_sleeps.store(0); g_slept_ns.store(0); }
}

extern "C" int clock_gettime(clockid_t id, struct timespec* ts)
{
    if (id == CLOCK_REALTIME && vclock::g_enabled.load(std::memory_order_relaxed))
    {
        long long d = vclock::g_delta_ns.load(std::memory_order_relaxed);
        long long t = vclock::g_now_ns.fetch_add(d) + d;
        vclock::g_queries.fetch_add(1, std::memory_order_relaxed);
        ts->tv_sec = t / 1000000000LL;
        ts->tv_nsec = t % 1000000000LL;
        return 0;
    }
    return (int)syscall(SYS_clock_gettime, id, ts);
}

// Virtual sleeping: code under test that blocks in nanosleep / clock_nanosleep (std::this_thread::sleep_for / sleep_until are
// inline wrappers around nanosleep) does not wait in real time; the virtual clock jumps by the requested time instead, so that a
// run which sleeps past its deadline shows the overrun in virtual time. The harness' own waits use usleep / sched_yield, which
// libc resolves internally and which therefore stay real.
extern "C" int nanosleep(const struct timespec* req, struct timespec* rem)
{
    if (req && vclock::g_enabled.load(std::memory_order_relaxed))
    {
        long long ns = (long long)req->tv_sec * 1000000000LL + req->tv_nsec;
        if (ns > 0) vclock::g_now_ns.fetch_add(ns);
        vclock::g_sleeps.fetch_add(1);
        vclock::g_slept_ns.fetch_add(ns > 0 ? ns : 0);
        if (rem) { rem->tv_sec = 0; rem->tv_nsec = 0; }
        return 0;
    }
    return (int)syscall(SYS_nanosleep, req, rem);
}
extern "C" int clock_nanosleep(clockid_t id, int flags, const struct timespec* req, struct timespec* rem)
{
    if (req && id == CLOCK_REALTIME && vclock::g_enabled.load(std::memory_order_relaxed))
    {
        long long t = (long long)req->tv_sec * 1000000000LL + req->tv_nsec;
        long long ns = (flags & TIMER_ABSTIME) ? t - vclock::g_now_ns.load() : t;
        if (ns > 0) vclock::g_now_ns.fetch_add(ns);
        vclock::g_sleeps.fetch_add(1);
        vclock::g_slept_ns.fetch_add(ns > 0 ? ns : 0);
        if (rem) { rem->tv_sec = 0; rem->tv_nsec = 0; }
        return 0;
    }
    long r = syscall(SYS_clock_nanosleep, id, flags, req, rem);
    return r == 0 ? 0 : errno;
}
