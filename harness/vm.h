// VM wrapper + per-VM monitors used by the harness.
#pragma once
#include "json.h"
#include "vclock.h"

#include "runtime/logging.h"
#include "runtime/runtime.h"
#include "runtime/verif_hooks.h"

#include <atomic>
#include <mutex>
#include <memory>
#include <string>
#include <vector>

struct LogEnt
{
    int level;
    long long code;
    std::string text;
    long long t = 0;       // virtual time when logged
    long long seq = 0;     // logical event counter (orders log entries against slices)
    bool has_loc = false;
    long long line = 0, col = 0;
    std::string path;
};

class CapLogger : public Logger
{
public:
    std::mutex mtx;
    std::vector<LogEnt> entries;
    size_t max_entries = 200000;
    size_t dropped = 0;
    size_t max_text = 1 << 16;
    void log(const LogMessageBase& message) override;
    vj::value drain();
};

// Snapshot of one context's frame bases / positions (bottom..top) and operand identities.
struct Snap
{
    std::vector<size_t> bases;
    std::vector<size_t> positions;
    std::vector<const void*> vals;
};
struct Shadow
{
    Snap s;
    const void* ctx = nullptr;
    bool valid = false;
};

// Monitor state attached to one runtime. Fields touched from two threads in the
// concurrent workloads are atomics; the rest is only touched by the executing thread.
struct VMMon
{
    sqf::runtime::runtime* rt = nullptr;
    // configuration
    bool mon_stack = false;
    bool mon_slices = false;
    size_t trace_max = 0;          // record up to this many executed instructions
    size_t budget_override = 0;    // slice length override (0 = keep)
    bool concurrent = false;       // failpoints yield
    long long tick_ns = 0;         // virtual time that passes per executed instruction
    // counters
    std::atomic<long long> instr{ 0 };
    std::atomic<long long> slices{ 0 };
    std::atomic<int> in_exec{ 0 };
    std::atomic<int> max_in_exec{ 0 };
    std::atomic<long long> failpoints{ 0 };
    // guarded region of runtime::execute ("acquired" .. "before_release"): how many threads are inside
    std::atomic<int> owners{ 0 };
    std::atomic<int> max_owners{ 0 };
    // instructions started while the exit request was already visible to the executing thread (per run: current / worst)
    std::atomic<long long> after_flag_cur{ 0 };
    std::atomic<long long> after_flag_max{ 0 };
    long long frames_done = 0, frames_forwarded = 0, endstatements = 0;
    size_t max_values = 0, max_frames = 0;
    // stack partition monitor
    std::vector<std::string> stack_viol;
    long long stack_checks = 0;
    std::vector<Shadow> shadows;                  // last observation of every script (by context id): survives context switches
    Shadow shadow_unknown;
    const void* last_ctx = nullptr; int last_ctx_id = -1;
    Shadow& shadow_of(sqf::runtime::runtime& r, sqf::runtime::context& c);
    // slice log
    struct Slice { int ctx; long long t0, t1; long long n; int res; bool susp; long long wake; size_t budget; bool can_suspend; bool empty_after; int known0; int known1; bool terminated; long long seq0; long long seq1; };
    std::vector<Slice> slice_log;
    // context identity -> small id. Only weak references: script handles report "done" through expiry
    // of the context, so the monitor must never keep a context alive.
    std::vector<std::weak_ptr<sqf::runtime::context>> ctx_ids;
    long long cur_slice_start_instr = 0;
    // scripts that left the scheduler's list without finishing through a slice (dropped after terminate): [ctx, terminate flag last seen, seq]
    struct Drop { int ctx; bool term; long long seq; };
    std::vector<Drop> drops;
    std::vector<char> ctx_term_seen, ctx_gone, ctx_finished;
    void track_contexts(sqf::runtime::runtime& r);
    // instruction trace
    struct Tr { int ctx; long long line, col; std::string text; size_t frames; };
    std::vector<Tr> trace;
    // error flag at action boundaries
    long long boundary_checks = 0, boundary_flag_set = 0, boundary_pending = 0;
    // deterministic per-monitor prng for failpoint delays
    std::atomic<unsigned long long> fp_rng{ 88172645463325252ULL };

    int ctx_id(sqf::runtime::runtime& r, sqf::runtime::context& c);
    void scan_contexts(sqf::runtime::runtime& r);
    vj::value report(bool with_logs);
    void reset_run();
};

struct VM
{
    CapLogger logger;
    std::unique_ptr<sqf::runtime::runtime> rt;
    std::unique_ptr<VMMon> mon;
    bool poisoned = false; // an exception escaped; do not reuse
    vj::value cfg;         // the step that created this VM (for auto_renew)
    ~VM();
};

long long next_seq();
void monitors_install();
VMMon* monitor_attach(sqf::runtime::runtime* rt);
void monitor_detach(sqf::runtime::runtime* rt);
