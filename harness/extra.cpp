// Additional step kinds: C API (export/sqfvm.cpp linked in as is), PBO reader, concurrent workloads.
#include "json.h"
#include "vclock.h"
#include "vm.h"

#include "export/sqfvm.h"
#include "rvutils/pbofile.hpp"

#include "fileio/default.h"

#include <atomic>
#include <filesystem>
#include <map>
#include <memory>
#include <string>
#include <cstring>

#include <thread>
#include <chrono>
#include <unistd.h>

using vj::value;
bool load_sqf(VM& vm, const value& st, value& out);
sqf::runtime::runtime::action action_of(const std::string& a);
extern bool g_exit_after_case;
extern std::atomic<bool> g_park_enabled;
extern std::atomic<int> g_parked;
extern std::atomic<int> g_park_release;

// ------------------------------------------------------------------ C API
struct ApiInst
{
    void* handle = nullptr;
    long long user = 0;
    bool destroyed = false;
};
struct CbRec { long long user, call; int sev; std::string text; };
static std::vector<CbRec> g_cb;
static std::map<int, ApiInst> g_api;
static char g_fake_handle[64];

static void api_cb(void* user, void* call, int32_t sev, const char* msg, uint32_t len)
{
    CbRec r;
    r.user = (long long)(intptr_t)user;
    r.call = (long long)(intptr_t)call;
    r.sev = sev;
    r.text.assign(msg ? msg : "", msg ? len : 0);
    if (g_cb.size() < 100000) g_cb.push_back(std::move(r));
}
static value drain_cb()
{
    auto a = value::arr();
    for (auto& r : g_cb) { auto e = value::arr(); e.push(r.user).push(r.call).push(r.sev).push(r.text); a.push(e); }
    g_cb.clear();
    return a;
}
static void* handle_of(const value& st)
{
    long long h = st["h"].i64(0);
    if (h == -1) return nullptr;
    if (h == -2) { memset(g_fake_handle, 0, sizeof g_fake_handle); return g_fake_handle; }
    auto it = g_api.find((int)h);
    if (it == g_api.end()) return nullptr;
    return it->second.handle;
}

void api_reset()
{
    for (auto& p : g_api) { if (p.second.handle && !p.second.destroyed) sqfvm_destroy_instance(p.second.handle); }
    g_api.clear();
    g_cb.clear();
}

// ------------------------------------------------------------------ allocation monitor (largest single request while armed)
extern "C" int __sanitizer_install_malloc_and_free_hooks(void (*malloc_hook)(const volatile void*, size_t), void (*free_hook)(const volatile void*)) __attribute__((weak));
static std::atomic<size_t> g_alloc_max{ 0 };
static std::atomic<size_t> g_alloc_total{ 0 };
static std::atomic<bool> g_alloc_armed{ false };
static void alloc_hook(const volatile void*, size_t n)
{
    if (!g_alloc_armed.load(std::memory_order_relaxed)) return;
    g_alloc_total.fetch_add(n, std::memory_order_relaxed);
    size_t cur = g_alloc_max.load(std::memory_order_relaxed);
    while (n > cur && !g_alloc_max.compare_exchange_weak(cur, n, std::memory_order_relaxed)) {}
}
static void free_hook(const volatile void*) {}
static bool alloc_monitor_install()
{
    static int installed = -1;
    if (installed < 0)
    {
        installed = (__sanitizer_install_malloc_and_free_hooks && __sanitizer_install_malloc_and_free_hooks(alloc_hook, free_hook) > 0) ? 1 : 0;
    }
    return installed == 1;
}
struct AllocScope
{
    bool ok;
    AllocScope() { ok = alloc_monitor_install(); g_alloc_max = 0; g_alloc_total = 0; g_alloc_armed = true; }
    ~AllocScope() { g_alloc_armed = false; }
};

static value pbo_describe(const rvutils::pbo::pbofile& pbo)
{
    auto o = value::obj();
    auto attrs = value::arr();
    for (auto& a : pbo.attributes()) { auto e = value::arr(); e.push(a.first).push(a.second); attrs.push(e); }
    o.set("attributes", attrs);
    auto files = value::arr();
    for (auto& f : pbo.files()) { auto e = value::arr(); e.push(f.name).push((long long)f.size).push((long long)f.packing); files.push(e); }
    o.set("files", files);
    return o;
}

value step_extra(const std::string& op, const value& st, std::map<int, std::unique_ptr<VM>>& vms, bool& handled)
{
    (void)vms;
    auto out = value::obj();
    handled = true;
    try
    {
        if (op == "api_create")
        {
            int h = (int)st["h"].i64(0);
            auto kind = st["kind"].str("full");
            float max_s = (float)st["max_s"].num(0);
            long long user = st["user"].i64(0);
            void* p = nullptr;
            if (kind == "full") p = sqfvm_create_instance((void*)(intptr_t)user, api_cb, max_s);
            else if (kind == "basic") p = sqfvm_create_instance_basic((void*)(intptr_t)user, api_cb, max_s);
            else p = sqfvm_create_instance_empty((void*)(intptr_t)user, api_cb, max_s);
            g_api[h] = ApiInst{ p, user, false };
            out.set("ok", p != nullptr);
        }
        else if (op == "api_call")
        {
            auto code = st["code"].str();
            auto type = st["type"].str("s");
            long long call = st["call_data"].i64(0);
            long long t0 = vclock::now_ns();
            int32_t r = sqfvm_call(handle_of(st), (void*)(intptr_t)call, type.empty() ? '\0' : type[0], code.data(), (uint32_t)code.size());
            out.set("ret", (int)r);
            out.set("t0", t0);
            out.set("t1", vclock::now_ns());
            out.set("status", (int)sqfvm_status(handle_of(st)));
        }
        else if (op == "api_load_config")
        {
            auto text = st["text"].str();
            int32_t r = sqfvm_load_config(handle_of(st), text.data(), (uint32_t)text.size());
            out.set("ret", (int)r);
            out.set("status", (int)sqfvm_status(handle_of(st)));
        }
        else if (op == "api_status")
        {
            out.set("ret", (int)sqfvm_status(handle_of(st)));
        }
        else if (op == "api_destroy")
        {
            int h = (int)st["h"].i64(0);
            auto it = g_api.find(h);
            if (it != g_api.end() && it->second.handle && !it->second.destroyed)
            {
                sqfvm_destroy_instance(it->second.handle);
                it->second.destroyed = true;
                it->second.handle = nullptr;
            }
        }
        else if (op == "api_reset")
        {
            api_reset();
        }
        else if (op == "concurrent")
        {
            // One thread executes (default: start) while this thread plays the controller: a planned list of actions,
            // each issued once the executor has run at least `at` instructions (or has returned).
            auto itv = vms.find((int)st["vm"].i64(0));
            if (itv == vms.end()) { out.set("harness_error", "no such vm"); return out; }
            VM& vm = *itv->second;
            auto& rt = *vm.rt;
            auto& scripts = st["scripts"];
            for (size_t i = 0; i < scripts.size(); i++)
            {
                auto ls = value::obj();
                ls.set("src", scripts.at(i).str()).set("nopp", true);
                value lo = value::obj();
                if (!load_sqf(vm, ls, lo)) { out.set("harness_error", "script does not load"); return out; }
            }
            vm.mon->concurrent = st["yield"].boolean(true);
            vm.mon->fp_rng.store(0x9E3779B97F4A7C15ULL ^ (unsigned long long)st["fp_seed"].i64(1));
            g_parked = 0; g_park_release = 0;
            g_park_enabled = st["park"].boolean(false);
            std::atomic<bool> done{ false };
            std::atomic<int> exec_res{ -99 };
            std::atomic<long long> exec_end_instr{ -1 };
            auto exec_action = action_of(st["exec"].str("start"));
            long long instr0 = vm.mon->instr.load();
            std::thread ex([&]() {
                try { exec_res = (int)rt.execute(exec_action); }
                catch (...) { exec_res = -98; }
                exec_end_instr = vm.mon->instr.load();
                done = true;
            });
            auto recs = value::arr();
            bool accepted = false;
            auto& plan = st["plan"];
            auto real_now = []() { return std::chrono::steady_clock::now(); };
            for (size_t i = 0; i < plan.size(); i++)
            {
                auto& pa = plan.at(i);
                long long at = pa["at"].i64(0);
                auto t_wait = real_now();
                auto rec = value::obj();
                rec.set("a", pa["a"].str());
                if (pa["a"].str() == "wait_parked")
                {
                    int want = g_park_release.load() + 1;
                    while (!done.load() && g_parked.load() < want && real_now() - t_wait < std::chrono::seconds(5)) sched_yield();
                    rec.set("parked", g_parked.load() >= want);
                    rec.set("done_before", done.load());
                    recs.push(rec);
                    continue;
                }
                if (pa["a"].str() == "release")
                {
                    g_park_release = g_parked.load();
                    rec.set("done_before", done.load());
                    rec.set("instr_before", vm.mon->instr.load() - instr0);
                    recs.push(rec);
                    continue;
                }
                while (!done.load() && vm.mon->instr.load() - instr0 < at && real_now() - t_wait < std::chrono::seconds(5)) sched_yield();
                rec.set("done_before", done.load());
                rec.set("instr_before", vm.mon->instr.load() - instr0);
                auto r = rt.execute(action_of(pa["a"].str()));
                rec.set("r", (int)r);
                if ((pa["a"].str() == "stop" || pa["a"].str() == "abort") && r == sqf::runtime::runtime::result::ok && !rec["done_before"].boolean(true)) accepted = true;
                rec.set("instr_after", vm.mon->instr.load() - instr0);
                rec.set("done_after", done.load());
                recs.push(rec);
            }
            // wind down: the executor must come back once asked to
            g_park_enabled = false;
            bool stuck = false;
            {
                // first without help: an accepted stop/abort has to be enough
                auto t_free = real_now();
                long long grace_ms = accepted ? st["grace_ms"].i64(1500) : 0;
                out.set("accepted_stop", accepted);
                while (!done.load() && real_now() - t_free < std::chrono::milliseconds(grace_ms)) usleep(500);
                out.set("done_without_help", done.load());
                out.set("instr_at_grace_end", vm.mon->instr.load() - instr0);
            }
            {
                auto t_end = real_now();
                int asks = 0;
                while (!done.load())
                {
                    if (st["final_abort"].boolean(true)) { rt.execute(sqf::runtime::runtime::action::abort); asks++; }
                    for (int k = 0; k < 200 && !done.load(); k++) usleep(1000);
                    if (real_now() - t_end > std::chrono::seconds((long long)st["stuck_s"].i64(20))) { stuck = true; break; }
                }
                out.set("final_aborts", asks);
            }
            if (stuck)
            {
                ex.detach();
                g_exit_after_case = true;   // a thread is lost inside the VM: this process cannot be reused
            }
            else
            {
                ex.join();
            }
            vm.mon->concurrent = false;
            out.set("stuck", stuck);
            out.set("exec_r", exec_res.load());
            out.set("exec_instr", exec_end_instr.load() - instr0);
            out.set("plan", recs);
            out.set("max_in_exec", vm.mon->max_in_exec.load());
            out.set("max_owners", vm.mon->max_owners.load());
            out.set("after_flag_max", vm.mon->after_flag_max.load());
            out.set("failpoints", vm.mon->failpoints.load());
            if (!stuck)
            {
                out.set("state", (int)rt.runtime_state());
                out.set("nctx", (long long)(rt.context_end() - rt.context_begin()));
                out.set("logs", vm.logger.drain());
            }
        }
        else if (op == "pbo")
        {
            // Opens the archive the way the CLI does (pbofile(path), then add_pbo_mapping(pbo)) or the way the
            // library entry point does (add_pbo_mapping(path)); reads the requested virtual paths through the VFS.
            AllocScope allocs;
            std::filesystem::path p(st["path"].str());
            auto via = st["via"].str("cli");
            auto itv = vms.find((int)st["vm"].i64(0));
            if (itv == vms.end()) { out.set("harness_error", "no such vm"); return out; }
            auto& fio = static_cast<sqf::fileio::impl_default&>(itv->second->rt->fileio());
            if (via == "cli")
            {
                rvutils::pbo::pbofile pbo(p);
                out.set("good", pbo.good());
                if (pbo.good())
                {
                    out.set("desc", pbo_describe(pbo));
                    fio.add_pbo_mapping(pbo);
                }
            }
            else
            {
                fio.add_pbo_mapping(p);
            }
            auto reads = value::arr();
            auto& want = st["read"];
            size_t cap = (size_t)st["cap"].i64(1 << 20);
            for (size_t i = 0; i < want.size(); i++)
            {
                auto e = value::obj();
                auto req = want.at(i).str();
                auto info = fio.get_info(req, {});
                e.set("found", info.has_value());
                if (info.has_value())
                {
                    e.set("physical", info->physical);
                    e.set("virtual", info->virtual_);
                    auto data = fio.read_file(*info);
                    e.set("len", (long long)data.size());
                    if (data.size() > cap) data.resize(cap);
                    e.set("data", data);
                }
                reads.push(e);
            }
            out.set("reads", reads);
            out.set("alloc_monitor", allocs.ok);
            out.set("alloc_max", (long long)g_alloc_max.load());
            out.set("alloc_total", (long long)g_alloc_total.load());
            out.set("logs", itv->second->logger.drain());
        }
        else
        {
            handled = false;
            return out;
        }
    }
    catch (const std::exception& ex)
    {
        out.set("exc", std::string(ex.what()));
    }
    catch (...)
    {
        out.set("exc", "non-std exception");
    }
    out.set("cb", drain_cb());
    return out;
}
