#pragma once
namespace vclock
{
    long long now_ns();
    void advance_ns(long long ns);
    void set_delta_ns(long long ns);
    long long queries();
    long long sleeps();      // blocking sleeps the code under test asked for (served in virtual time)
    long long slept_ns();
    void enable(bool flag);
    void reset();
}
