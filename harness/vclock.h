#pragma once
namespace vclock
{
    long long now_ns();
    void advance_ns(long long ns);
    void set_delta_ns(long long ns);
    long long queries();
    void enable(bool flag);
    void reset();
}
