// Minimal JSON value, parser and writer for the harness protocol.
// Strings are byte strings: bytes >= 0x80 and control characters are written as \u00XX
// and read back as single bytes (the Python side uses latin-1 for the same mapping).
#pragma once
#include <map>
#include <memory>
#include <stdexcept>
#include <string>
#include <vector>
#include <cstdio>
#include <cstdlib>
#include <cstring>
#include <cmath>

namespace vj
{
    struct value;
    using array = std::vector<value>;
    using object = std::vector<std::pair<std::string, value>>;
    struct value
    {
        enum kind_t { NUL, BOOL, NUM, STR, ARR, OBJ } kind = NUL;
        bool b = false;
        double n = 0;
        std::string s;
        std::shared_ptr<array> a;
        std::shared_ptr<object> o;

        value() {}
        value(bool v) : kind(BOOL), b(v) {}
        value(int v) : kind(NUM), n(v) {}
        value(long v) : kind(NUM), n((double)v) {}
        value(long long v) : kind(NUM), n((double)v) {}
        value(unsigned long v) : kind(NUM), n((double)v) {}
        value(unsigned long long v) : kind(NUM), n((double)v) {}
        value(unsigned v) : kind(NUM), n(v) {}
        value(double v) : kind(NUM), n(v) {}
        value(const char* v) : kind(STR), s(v) {}
        value(std::string v) : kind(STR), s(std::move(v)) {}
        static value arr() { value v; v.kind = ARR; v.a = std::make_shared<array>(); return v; }
        static value obj() { value v; v.kind = OBJ; v.o = std::make_shared<object>(); return v; }

        bool is_null() const { return kind == NUL; }
        bool has(const std::string& k) const
        {
            if (kind != OBJ) return false;
            for (auto& p : *o) if (p.first == k) return true;
            return false;
        }
        const value& operator[](const std::string& k) const
        {
            static value nul;
            if (kind != OBJ) return nul;
            for (auto& p : *o) if (p.first == k) return p.second;
            return nul;
        }
        value& set(const std::string& k, value v)
        {
            if (kind != OBJ) { kind = OBJ; o = std::make_shared<object>(); }
            for (auto& p : *o) if (p.first == k) { p.second = std::move(v); return *this; }
            o->emplace_back(k, std::move(v));
            return *this;
        }
        value& push(value v)
        {
            if (kind != ARR) { kind = ARR; a = std::make_shared<array>(); }
            a->push_back(std::move(v));
            return *this;
        }
        size_t size() const { return kind == ARR ? a->size() : kind == OBJ ? o->size() : 0; }
        const value& at(size_t i) const { return (*a)[i]; }
        std::string str(const std::string& def = "") const { return kind == STR ? s : def; }
        double num(double def = 0) const { return kind == NUM ? n : kind == BOOL ? (b ? 1 : 0) : def; }
        long long i64(long long def = 0) const { return kind == NUM ? (long long)n : kind == BOOL ? (b ? 1 : 0) : def; }
        bool boolean(bool def = false) const { return kind == BOOL ? b : kind == NUM ? n != 0 : def; }
    };

    inline void write_string(std::string& out, const std::string& s)
    {
        out.push_back('"');
        for (unsigned char c : s)
        {
            switch (c)
            {
            case '"': out += "\\\""; break;
            case '\\': out += "\\\\"; break;
            case '\n': out += "\\n"; break;
            case '\r': out += "\\r"; break;
            case '\t': out += "\\t"; break;
            default:
                if (c < 0x20 || c >= 0x7f)
                {
                    char buf[8];
                    snprintf(buf, sizeof buf, "\\u%04x", c);
                    out += buf;
                }
                else out.push_back((char)c);
            }
        }
        out.push_back('"');
    }
    inline void write(std::string& out, const value& v)
    {
        switch (v.kind)
        {
        case value::NUL: out += "null"; break;
        case value::BOOL: out += v.b ? "true" : "false"; break;
        case value::NUM:
        {
            if (std::isnan(v.n) || std::isinf(v.n)) { out += "null"; break; }
            char buf[40];
            if (v.n == std::floor(v.n) && std::fabs(v.n) < 9e15) snprintf(buf, sizeof buf, "%lld", (long long)v.n);
            else snprintf(buf, sizeof buf, "%.17g", v.n);
            out += buf;
        } break;
        case value::STR: write_string(out, v.s); break;
        case value::ARR:
            out.push_back('[');
            for (size_t i = 0; i < v.a->size(); i++) { if (i) out.push_back(','); write(out, (*v.a)[i]); }
            out.push_back(']');
            break;
        case value::OBJ:
            out.push_back('{');
            for (size_t i = 0; i < v.o->size(); i++)
            {
                if (i) out.push_back(',');
                write_string(out, (*v.o)[i].first);
                out.push_back(':');
                write(out, (*v.o)[i].second);
            }
            out.push_back('}');
            break;
        }
    }
    inline std::string dump(const value& v) { std::string s; write(s, v); return s; }

    struct parser
    {
        const char* p; const char* e;
        parser(const std::string& s) : p(s.data()), e(s.data() + s.size()) {}
        [[noreturn]] void fail(const char* m) { throw std::runtime_error(std::string("json: ") + m); }
        void ws() { while (p < e && (*p == ' ' || *p == '\n' || *p == '\t' || *p == '\r')) p++; }
        value parse() { ws(); auto v = val(); ws(); return v; }
        value val()
        {
            ws();
            if (p >= e) fail("eof");
            switch (*p)
            {
            case '{':
            {
                p++; value v = value::obj(); ws();
                if (p < e && *p == '}') { p++; return v; }
                while (true)
                {
                    ws(); if (p >= e || *p != '"') fail("key");
                    std::string k = strv(); ws();
                    if (p >= e || *p != ':') fail("colon");
                    p++;
                    v.o->emplace_back(k, val()); ws();
                    if (p < e && *p == ',') { p++; continue; }
                    if (p < e && *p == '}') { p++; return v; }
                    fail("obj");
                }
            }
            case '[':
            {
                p++; value v = value::arr(); ws();
                if (p < e && *p == ']') { p++; return v; }
                while (true)
                {
                    v.a->push_back(val()); ws();
                    if (p < e && *p == ',') { p++; continue; }
                    if (p < e && *p == ']') { p++; return v; }
                    fail("arr");
                }
            }
            case '"': return value(strv());
            case 't': if (e - p >= 4 && !strncmp(p, "true", 4)) { p += 4; return value(true); } fail("lit");
            case 'f': if (e - p >= 5 && !strncmp(p, "false", 5)) { p += 5; return value(false); } fail("lit");
            case 'n': if (e - p >= 4 && !strncmp(p, "null", 4)) { p += 4; return value(); } fail("lit");
            default:
            {
                char* end = nullptr;
                std::string tmp(p, (size_t)std::min<long>(e - p, 40));
                double d = strtod(tmp.c_str(), &end);
                if (end == tmp.c_str()) fail("num");
                p += end - tmp.c_str();
                return value(d);
            }
            }
        }
        std::string strv()
        {
            std::string out; p++;
            while (p < e && *p != '"')
            {
                if (*p == '\\')
                {
                    p++; if (p >= e) fail("esc");
                    switch (*p)
                    {
                    case 'n': out.push_back('\n'); break;
                    case 't': out.push_back('\t'); break;
                    case 'r': out.push_back('\r'); break;
                    case 'b': out.push_back('\b'); break;
                    case 'f': out.push_back('\f'); break;
                    case 'u':
                    {
                        if (e - p < 5) fail("u");
                        unsigned cp = (unsigned)strtoul(std::string(p + 1, 4).c_str(), nullptr, 16);
                        p += 4;
                        if (cp < 0x100) out.push_back((char)cp);
                        else
                        { // encode as utf-8 (not expected from the python side, which sends latin-1 mapped bytes)
                            if (cp < 0x800) { out.push_back((char)(0xC0 | (cp >> 6))); out.push_back((char)(0x80 | (cp & 0x3F))); }
                            else { out.push_back((char)(0xE0 | (cp >> 12))); out.push_back((char)(0x80 | ((cp >> 6) & 0x3F))); out.push_back((char)(0x80 | (cp & 0x3F))); }
                        }
                    } break;
                    default: out.push_back(*p);
                    }
                    p++;
                }
                else out.push_back(*p++);
            }
            if (p >= e) fail("str");
            p++;
            return out;
        }
    };
    inline value parse(const std::string& s) { parser p(s); return p.parse(); }
}
