// vh - verification harness for SQFvm/runtime.
// Reads one JSON case per line on stdin, executes its steps against real VMs built the way the
// CLI / C API build them, and writes one JSON result per case. Protocol:
//   "B <id>\n"           before a case starts (journal: a worker that dies is charged to this case)
//   "R <id> <json>\n"    result of the case
//   "T <id>\n"           CPU budget of the case exhausted (process exits with 14)
#include "json.h"
#include "vclock.h"
#include "vm.h"

#include "runtime/logging.h"
#include "runtime/runtime.h"
#include "runtime/d_code.h"
#include "runtime/d_string.h"
#include "runtime/d_array.h"
#include "runtime/d_scalar.h"
#include "parser/config/config_parser.hpp"
#include "parser/assembly/assembly_parser.h"
#include "parser/sqf/sqf_parser.hpp"
#include "parser/sqf/sqf_formatter.h"
#include "parser/preprocessor/default.h"
#include "operators/ops.h"
#include "fileio/default.h"
#include "opcodes/push.h"
#include "export/sqfvm.h"

#include <csignal>
#include <cstdio>
#include <cstring>
#include <iostream>
#include <map>
#include <sstream>
#include <thread>
#include <sys/time.h>
#include <sys/resource.h>
#include <unistd.h>

using sqf::runtime::runtime;
using sqf::runtime::frame;
using sqf::runtime::instruction_set;
using sqf::runtime::fileio;
namespace sqfop = sqf::runtime::sqfop;
using vj::value;

extern void api_reset();
extern value step_extra(const std::string& op, const value& st, std::map<int, std::unique_ptr<VM>>& vms, bool& handled);

static long long g_cur_id = -1;

static void on_cpu_timeout(int)
{
    char buf[64];
    int n = snprintf(buf, sizeof buf, "\nT %lld\n", g_cur_id);
    if (write(1, buf, (size_t)n) < 0) {}
    _exit(14);
}

static void arm_cpu(long long ms)
{
    struct itimerval it;
    memset(&it, 0, sizeof it);
    it.it_value.tv_sec = ms / 1000;
    it.it_value.tv_usec = (ms % 1000) * 1000;
    setitimer(ITIMER_PROF, &it, nullptr);
}

static const char* result_name(runtime::result r)
{
    switch (r)
    {
    case runtime::result::invalid: return "invalid";
    case runtime::result::empty: return "empty";
    case runtime::result::ok: return "ok";
    case runtime::result::action_error: return "action_error";
    case runtime::result::runtime_error: return "runtime_error";
    }
    return "?";
}
static const char* state_name(runtime::state s)
{
    switch (s)
    {
    case runtime::state::empty: return "empty";
    case runtime::state::halted: return "halted";
    case runtime::state::running: return "running";
    case runtime::state::halted_error: return "halted_error";
    case runtime::state::evaluating: return "evaluating";
    }
    return "?";
}
runtime::action action_of(const std::string& a)
{
    if (a == "start") return runtime::action::start;
    if (a == "stop") return runtime::action::stop;
    if (a == "abort") return runtime::action::abort;
    if (a == "assembly_step") return runtime::action::assembly_step;
    if (a == "line_step") return runtime::action::line_step;
    if (a == "leave_scope") return runtime::action::leave_scope;
    if (a == "reset_run_atomic") return runtime::action::reset_run_atomic;
    return runtime::action::invalid;
}

static sqf::runtime::value dummy_err(runtime& rt)
{
    rt.__logmsg(logmessage::runtime::ErrorMessage(rt.context_active().current_frame().diag_info_from_position(), "DUMMY", "DUMMY"));
    return {};
}

std::unique_ptr<VM> make_vm(const value& st)
{
    auto vm = std::make_unique<VM>();
    runtime::runtime_conf conf;
    conf.max_runtime = std::chrono::milliseconds(st["max_runtime_ms"].i64(0));
    conf.disable_sleep = st["disable_sleep"].boolean(false);
    conf.enable_classname_check = st["classname_check"].boolean(true);
    conf.disable_networking = true;
    conf.print_context_work_to_log_on_exit = st["print_work"].boolean(true);
    if (st.has("loop_max")) conf.max_loop_iterations_in_unscheduled = (size_t)st["loop_max"].i64(10000);
    vm->rt = std::make_unique<runtime>(vm->logger, conf);
    auto& rt = *vm->rt;
    rt.fileio(std::make_unique<sqf::fileio::impl_default>(vm->logger));
    rt.parser_config(std::make_unique<sqf::parser::config::parser>(vm->logger));
    rt.parser_preprocessor(std::make_unique<sqf::parser::preprocessor::impl_default>(vm->logger));
    rt.parser_sqf(std::make_unique<sqf::parser::sqf::parser>(vm->logger));
    auto ops = st["ops"].str("full");
    if (ops == "full") { sqf::operators::ops(rt); }
    else if (ops == "basic")
    {
        sqf::operators::ops_config(rt); sqf::operators::ops_diag(rt); sqf::operators::ops_generic(rt);
        sqf::operators::ops_logic(rt); sqf::operators::ops_math(rt); sqf::operators::ops_namespace(rt);
        sqf::operators::ops_sqfvm(rt); sqf::operators::ops_string(rt); sqf::operators::ops_text(rt);
        sqf::operators::ops_osspecific(rt); sqf::operators::ops_hashmap(rt);
    }
    // synthetic dummy operators, registered the way the CLI's --command-dummy-* options do
    auto& d = st["dummies"];
    for (size_t i = 0; i < d.size(); i++)
    {
        auto& e = d.at(i);
        auto kind = e.at(0).str();
        auto name = e.at(1).str();
        if (kind == "n")
        {
            rt.register_sqfop(sqfop::nular(name, "DUMMY", [](runtime& r) -> sqf::runtime::value { return dummy_err(r); }));
        }
        else if (kind == "u")
        {
            rt.register_sqfop(sqfop::unary(name, sqf::types::t_any(), "DUMMY", [](runtime& r, sqf::runtime::value::cref) -> sqf::runtime::value { return dummy_err(r); }));
        }
        else if (kind == "b")
        {
            rt.register_sqfop(sqfop::binary((short)e.at(2).i64(4), name, sqf::types::t_any(), sqf::types::t_any(), "DUMMY",
                [](runtime& r, sqf::runtime::value::cref, sqf::runtime::value::cref) -> sqf::runtime::value { return dummy_err(r); }));
        }
    }
    auto& maps = st["maps"];
    for (size_t i = 0; i < maps.size(); i++)
    {
        rt.fileio().add_mapping(maps.at(i).at(0).str(), maps.at(i).at(1).str());
    }
    auto& pbos = st["pbos"];
    for (size_t i = 0; i < pbos.size(); i++)
    {
        static_cast<sqf::fileio::impl_default&>(rt.fileio()).add_pbo_mapping(std::filesystem::path(pbos.at(i).str()));
    }
    auto& defs = st["defines"];
    for (size_t i = 0; i < defs.size(); i++)
    {
        if (defs.at(i).size() == 1) rt.parser_preprocessor().push_back(sqf::runtime::parser::macro(defs.at(i).at(0).str()));
        else rt.parser_preprocessor().push_back(sqf::runtime::parser::macro(defs.at(i).at(0).str(), defs.at(i).at(1).str()));
    }
    vm->mon.reset(monitor_attach(vm->rt.get()));
    if (vm->mon)
    {
        auto& mo = st["mon"];
        vm->mon->mon_stack = mo["stack"].boolean(false);
        vm->mon->mon_slices = mo["slices"].boolean(false);
        vm->mon->trace_max = (size_t)mo["trace"].i64(0);
        vm->mon->budget_override = (size_t)mo["budget"].i64(0);
        vm->mon->tick_ns = mo["tick_ns"].i64(0);
    }
    return vm;
}

static fileio::pathinfo pathinfo_of(const value& st, const char* def)
{
    return fileio::pathinfo(st["path"].str(def), st["vpath"].str(""));
}

static value state_of(VM& vm)
{
    auto o = value::obj();
    auto& rt = *vm.rt;
    o.set("state", state_name(rt.runtime_state()));
    o.set("nctx", (long long)(rt.context_end() - rt.context_begin()));
    o.set("err", rt.__runtime_error());
    o.set("pending", (long long)rt.log_messages.size());
    auto ec = rt.exit_code();
    if (ec.has_value()) o.set("exit_code", *ec);
    return o;
}

bool load_sqf(VM& vm, const value& st, value& out)
{
    auto& rt = *vm.rt;
    auto pi = pathinfo_of(st, "/vh/input.sqf");
    std::string src = st["src"].str();
    std::optional<std::string> pp;
    if (st["nopp"].boolean(false)) pp = src;
    else pp = rt.parser_preprocessor().preprocess(rt, src, pi);
    out.set("pp", pp.has_value());
    if (!pp.has_value()) return false;
    auto set = rt.parser_sqf().parse(rt, *pp, pi);
    out.set("parsed", set.has_value());
    if (!set.has_value()) return false;
    auto ctx = rt.context_create().lock();
    frame f(rt.default_value_scope(), *set);
    ctx->push_frame(f);
    ctx->name(st["name"].str(pi.physical));
    return true;
}

static void do_action(VM& vm, const std::string& a, value& out)
{
    auto& rt = *vm.rt;
    long long t0 = vclock::now_ns();
    long long i0 = vm.mon ? vm.mon->instr.load() : 0;
    auto r = rt.execute(action_of(a));
    out.set("r", result_name(r));
    out.set("t0", t0);
    out.set("t1", vclock::now_ns());
    if (vm.mon) out.set("n", vm.mon->instr.load() - i0);
    if (vclock::sleeps()) { out.set("vsleeps", vclock::sleeps()); out.set("vslept_ns", vclock::slept_ns()); }
}

static value listing_of(const instruction_set& set, int depth)
{
    auto arr = value::arr();
    for (auto it = set.begin(); it != set.end(); ++it)
    {
        auto p = dynamic_cast<const sqf::opcodes::push*>(it->get());
        if (p && depth < 64 && !p->value().empty() && p->value().is<sqf::runtime::t_code>())
        {
            auto code = p->value().data<sqf::types::d_code>();
            auto e = value::arr();
            e.push("PUSHCODE").push(listing_of(code->value(), depth + 1));
            arr.push(e);
        }
        else
        {
            arr.push((*it)->to_string());
        }
    }
    return arr;
}
static value listing_with_pos(const instruction_set& set)
{
    auto arr = value::arr();
    for (auto it = set.begin(); it != set.end(); ++it)
    {
        auto d = (*it)->diag_info();
        auto e = value::arr();
        e.push((*it)->to_string()).push((long long)d.line).push((long long)d.column).push(d.path.physical);
        arr.push(e);
    }
    return arr;
}

static value run_step(const value& st, std::map<int, std::unique_ptr<VM>>& vms);
static value run_step(const value& st, std::map<int, std::unique_ptr<VM>>& vms)
{
    auto out = value::obj();
    auto op = st["op"].str();
    int vid = (int)st["vm"].i64(0);
    if (op == "clock")
    {
        vclock::advance_ns(st["ms"].i64(0) * 1000000LL + st["us"].i64(0) * 1000LL);
        out.set("now", vclock::now_ns());
        return out;
    }
    if (op == "clock_delta") { vclock::set_delta_ns(st["ns"].i64(1000)); return out; }
    if (op == "vm")
    {
        vms.erase(vid);
        vms[vid] = make_vm(st);
        vms[vid]->cfg = st;
        out.set("logs", vms[vid]->logger.drain());
        return out;
    }
    if (op == "drop") { vms.erase(vid); return out; }
    if (op == "parallel")
    {
        // Every job is a list of steps run on its own thread against its own set of VMs; all threads start together.
        auto& jobs = st["jobs"];
        size_t n = jobs.size();
        std::vector<value> results(n);
        std::vector<std::thread> threads;
        std::atomic<size_t> ready{ 0 };
        for (size_t j = 0; j < n; j++)
        {
            results[j] = value::arr();
            threads.emplace_back([&, j]() {
                std::map<int, std::unique_ptr<VM>> local;
                ready.fetch_add(1);
                while (ready.load() < n) sched_yield();
                auto& steps = jobs.at(j)["steps"];
                long long reps = jobs.at(j)["repeat"].i64(1);
                for (long long rep = 0; rep < reps; rep++)
                {
                    for (size_t i = 0; i < steps.size(); i++)
                    {
                        auto r = run_step(steps.at(i), local);
                        if (rep == reps - 1) results[j].push(r);
                    }
                }
            });
        }
        for (auto& t : threads) t.join();
        auto arr = value::arr();
        for (auto& r : results) arr.push(r);
        out.set("jobs", arr);
        return out;
    }
    {
        bool handled = false;
        auto r = step_extra(op, st, vms, handled);
        if (handled) return r;
    }
    auto itv = vms.find(vid);
    if (itv == vms.end()) { out.set("harness_error", "no such vm"); return out; }
    if (itv->second->poisoned && itv->second->cfg["auto_renew"].boolean(false))
    {
        auto cfg = itv->second->cfg;
        vms.erase(vid);
        vms[vid] = make_vm(cfg);
        vms[vid]->cfg = cfg;
        vms[vid]->logger.drain();
        itv = vms.find(vid);
        out.set("renewed", true);
        // re-run the prelude of the VM, if it has one
        if (cfg.has("prelude_cfg"))
        {
            auto pst = value::obj();
            pst.set("op", "cfg").set("vm", vid).set("src", cfg["prelude_cfg"].str());
            run_step(pst, vms);
        }
        if (cfg.has("prelude"))
        {
            auto pst = value::obj();
            pst.set("op", "run").set("vm", vid).set("src", cfg["prelude"].str()).set("reset_ts", true);
            run_step(pst, vms);
        }
    }
    VM& vm = *itv->second;
    auto& rt = *vm.rt;
    try
    {
        if (op == "load")
        {
            load_sqf(vm, st, out);
        }
        else if (op == "act")
        {
            do_action(vm, st["a"].str(), out);
        }
        else if (op == "run")
        {
            // what the CLI does for one input: load, start, abort unless ok
            bool ok = st.has("src") ? load_sqf(vm, st, out) : true;
            if (st["reset_ts"].boolean(false)) rt.runtime_timestamp_reset();
            if (ok)
            {
                do_action(vm, "start", out);
                auto r = out["r"].str();
                out.set("state_after_start", state_name(rt.runtime_state()));
                if (r != "ok" && !st["noabort"].boolean(false))
                {
                    auto ar = rt.execute(runtime::action::abort);
                    out.set("abort", result_name(ar));
                }
            }
        }
        else if (op == "cfg")
        {
            auto pi = pathinfo_of(st, "/vh/config.cpp");
            std::optional<std::string> pp;
            if (st["nopp"].boolean(false)) pp = st["src"].str();
            else pp = rt.parser_preprocessor().preprocess(rt, st["src"].str(), pi);
            out.set("pp", pp.has_value());
            if (pp.has_value())
            {
                bool ok = st["check_only"].boolean(false) ? rt.parser_config().check_syntax(*pp, pi) : rt.parser_config().parse(rt.confighost(), *pp, pi);
                out.set("ok", ok);
            }
        }
        else if (op == "pp")
        {
            auto pi = pathinfo_of(st, "/vh/input.sqf");
            auto pp = rt.parser_preprocessor().preprocess(rt, st["src"].str(), pi);
            out.set("ok", pp.has_value());
            if (pp.has_value()) out.set("text", *pp);
        }
        else if (op == "parse")
        {
            auto pi = pathinfo_of(st, "/vh/input.sqf");
            std::optional<std::string> pp;
            if (st["pp"].boolean(false)) pp = rt.parser_preprocessor().preprocess(rt, st["src"].str(), pi);
            else pp = st["src"].str();
            out.set("pp", pp.has_value());
            if (pp.has_value())
            {
                if (st["check_only"].boolean(false))
                {
                    out.set("ok", rt.parser_sqf().check_syntax(rt, *pp, pi));
                }
                else
                {
                    auto set = rt.parser_sqf().parse(rt, *pp, pi);
                    out.set("ok", set.has_value());
                    if (set.has_value())
                    {
                        if (st["pos"].boolean(false)) out.set("listing", listing_with_pos(*set));
                        else if (!st["nolisting"].boolean(false)) out.set("listing", listing_of(*set, 0));
                        out.set("n", (long long)set->size());
                    }
                }
            }
        }
        else if (op == "pretty")
        {
            std::ostringstream ss;
            sqf::parser::sqf::formatter fmt(rt, st["src"].str(), pathinfo_of(st, "/vh/input.sqf"));
            fmt.prettify(fmt.getRes(), 0, ss);
            out.set("text", ss.str());
        }
        else if (op == "eval")
        {
            bool success = false;
            auto v = rt.evaluate_expression(st["src"].str(), success, false);
            out.set("ok", success);
            if (success)
            {
                out.set("str", v.to_string_sqf());
                out.set("type", std::string(v.type().to_string()));
                out.set("raw", v.to_string());
                if (v.is<sqf::runtime::t_scalar>())
                {
                    float f = v.data<sqf::types::d_scalar, float>();
                    unsigned int bits; memcpy(&bits, &f, sizeof bits);
                    char b2[16]; snprintf(b2, sizeof b2, "%08x", bits);
                    out.set("bits", std::string(b2));
                }
                if (st["hash"].boolean(false))
                {
                    char buf[32]; snprintf(buf, sizeof buf, "%zx", v.hash());
                    out.set("hash", std::string(buf));
                }
            }
        }
        else if (op == "state")
        {
            // fallthrough to common tail
        }
        else if (op == "registry")
        {
            auto n = value::arr(), u = value::arr(), b = value::arr();
            for (auto it = rt.sqfop_nular_begin(); it != rt.sqfop_nular_end(); ++it)
            {
                auto e = value::arr(); e.push(it->first.name).push(!it->second.description().empty() && it->second.description() != "NOT IMPLEMENTED"); n.push(e);
            }
            for (auto it = rt.sqfop_unary_begin(); it != rt.sqfop_unary_end(); ++it)
            {
                auto e = value::arr(); e.push(it->first.name).push(std::string(it->first.right_type.to_string())).push(std::string(it->second.description())); u.push(e);
            }
            for (auto it = rt.sqfop_binary_begin(); it != rt.sqfop_binary_end(); ++it)
            {
                auto e = value::arr();
                e.push(it->first.name).push(std::string(it->first.left_type.to_string())).push(std::string(it->first.right_type.to_string())).push((int)it->second.precedence()).push(std::string(it->second.description()));
                b.push(e);
            }
            out.set("n", n); out.set("u", u); out.set("b", b);
        }
        else
        {
            out.set("harness_error", "unknown op " + op);
        }
    }
    catch (const std::exception& ex)
    {
        out.set("exc", std::string(ex.what()));
        vm.poisoned = true;
        // the VM's run flag may be stuck; this is what embedders are told to do
        try { rt.execute(runtime::action::reset_run_atomic); } catch (...) {}
    }
    catch (...)
    {
        out.set("exc", "non-std exception");
        vm.poisoned = true;
    }
    {
        // a run that was cut by the time limit leaves the VM in a state later runs must not inherit in batch workloads
        std::lock_guard<std::mutex> g(vm.logger.mtx);
        for (auto& e : vm.logger.entries) { if (e.code == 60002) { if (vm.cfg["auto_renew"].boolean(false)) vm.poisoned = true; } }
    }
    out.set("logs", vm.logger.drain());
    out.set("st", state_of(vm));
    if (vm.mon && st["mon"].boolean(false))
    {
        // a script dropped by the scheduler after the very last slice of the run would otherwise never be recorded as dropped
        if (vm.mon->mon_slices && vm.rt) vm.mon->track_contexts(*vm.rt);
        out.set("mon", vm.mon->report(true));
    }
    return out;
}

bool g_exit_after_case = false;

int main(int argc, char** argv)
{
    std::ios::sync_with_stdio(false);
    monitors_install();
    signal(SIGPROF, on_cpu_timeout);
    signal(SIGPIPE, SIG_IGN);
    bool realclock = false;
    for (int i = 1; i < argc; i++)
    {
        if (!strcmp(argv[i], "--realclock")) realclock = true;
    }
    if (realclock) vclock::enable(false);

    std::string line;
    while (std::getline(std::cin, line))
    {
        if (line.empty()) continue;
        value c;
        try { c = vj::parse(line); }
        catch (const std::exception& ex)
        {
            std::string o = "E " + std::string(ex.what()) + "\n";
            if (write(1, o.data(), o.size()) < 0) {}
            continue;
        }
        g_cur_id = c["id"].i64(-1);
        {
            char buf[64];
            int n = snprintf(buf, sizeof buf, "B %lld\n", g_cur_id);
            if (write(1, buf, (size_t)n) < 0) {}
        }
        vclock::reset();
        long long cpu_ms = c["cpu_ms"].i64(20000);
        struct rusage ru0; getrusage(RUSAGE_SELF, &ru0);
        arm_cpu(cpu_ms);
        auto res = value::arr();
        {
            auto vms_p = std::make_unique<std::map<int, std::unique_ptr<VM>>>();
            auto& vms = *vms_p;
            auto& steps = c["steps"];
            bool journal_steps = c["journal_steps"].boolean(false);
            for (size_t i = 0; i < steps.size(); i++)
            {
                if (journal_steps)
                {
                    char buf[64];
                    int n = snprintf(buf, sizeof buf, "S %lld %zu\n", g_cur_id, i);
                    if (write(1, buf, (size_t)n) < 0) {}
                }
                res.push(run_step(steps.at(i), vms));
                if (g_exit_after_case) break;
            }
            if (c["exit_after"].boolean(false)) g_exit_after_case = true;      // the next case gets a fresh process
            if (g_exit_after_case) { vms_p.release(); /* a lost thread still runs inside one of these VMs */ }
            else api_reset();
        }
        arm_cpu(0);
        struct rusage ru1; getrusage(RUSAGE_SELF, &ru1);
        double cpu = (ru1.ru_utime.tv_sec - ru0.ru_utime.tv_sec) + (ru1.ru_utime.tv_usec - ru0.ru_utime.tv_usec) / 1e6
            + (ru1.ru_stime.tv_sec - ru0.ru_stime.tv_sec) + (ru1.ru_stime.tv_usec - ru0.ru_stime.tv_usec) / 1e6;
        auto o = value::obj();
        o.set("res", res);
        o.set("cpu", cpu);
        o.set("maxrss_kb", (long long)ru1.ru_maxrss);
        std::string outl = "R " + std::to_string(g_cur_id) + " ";
        vj::write(outl, o);
        outl.push_back('\n');
        size_t off = 0;
        while (off < outl.size())
        {
            ssize_t w = write(1, outl.data() + off, outl.size() - off);
            if (w <= 0) break;
            off += (size_t)w;
        }
        if (g_exit_after_case) _exit(0);
    }
    return 0;
}
