"""C15 - config tree: values read back, inheritance lookup, merge/delete/append, acyclic.
Generated config texts are loaded (1-4 per VM, in order) into the real confighost and into the reference model below; every
path over the name pool (existing or not) is then queried through the SQF config operators and compared."""
import json

from .. import core
from ..sqfmodel import sqf_repr, f32

PROP = 'C15'
CLASSES = ['A', 'B', 'C', 'D', 'E', 'F']
FIELDS = ['p', 'q', 'r', 'arr', 'lst']


# ---- reference model ------------------------------------------------------------------------------------------------------

class Node:
    def __init__(self, name, parent):
        self.name = name
        self.parent = parent
        self.order = []        # own entries in declaration order: names
        self.own = {}          # name -> Node | ('val', v) | ('deleted',)
        self.base = None

    def lookup_logical(self, name):
        n = self
        while n is not None:
            e = n.own.get(name)
            if isinstance(e, Node):
                return e
            if e is not None:
                return None      # a value or a delete marker of that name shadows
            n = n.parent
        return None

    def lookup(self, name, depth=0):
        n = self
        seen = 0
        while n is not None:
            if name in n.own:
                e = n.own[name]
                return None if e == ('deleted',) else e
            n = n.base
            seen += 1
            if seen > 200:
                raise RuntimeError('cycle')
        return None


def load(root, ast):
    """ast: list of ('class', name, base|None, body) | ('field', name, value) | ('append', name, [values]) | ('delete', name) | ('decl', name)"""
    def apply(parent, items):
        for it in items:
            k = it[0]
            if k in ('class', 'decl'):
                name, base = it[1], (it[2] if k == 'class' else None)
                e = parent.own.get(name)
                # the base is looked up through the enclosing scopes as they are when the definition is met:
                # a class that does not exist yet cannot be found as its own base (class X : X names the outer X)
                resolved = parent.lookup_logical(base) if base else None
                if not isinstance(e, Node):
                    node = Node(name, parent)
                    if name not in parent.own:
                        parent.order.append(name)
                    parent.own[name] = node
                else:
                    node = e
                if base:
                    # a base whose own chain leads back to the class itself is refused: the class keeps the base it had
                    n, cyclic, steps = resolved, False, 0
                    while n is not None and steps < 500:
                        if n is node:
                            cyclic = True
                            break
                        n = n.base
                        steps += 1
                    if not cyclic:
                        node.base = resolved
                if k == 'class':
                    apply(node, it[3])
            elif k == 'field':
                if it[1] not in parent.own:
                    parent.order.append(it[1])
                parent.own[it[1]] = ('val', it[2])
            elif k == 'append':
                inherited = parent.base.lookup(it[1]) if parent.base else None
                vals = list(it[2])
                if inherited and inherited[0] == 'val' and isinstance(inherited[1], list):
                    vals = list(inherited[1]) + vals
                if it[1] not in parent.own:
                    parent.order.append(it[1])
                parent.own[it[1]] = ('val', vals)
            elif k == 'delete':
                if it[1] not in parent.own:
                    parent.order.append(it[1])
                parent.own[it[1]] = ('deleted',)
    apply(root, ast)


# ---- generator ----------------------------------------------------------------------------------------------------------------

def gen_value(rng, depth=0):
    c = rng.random()
    if c < 0.4:
        return rng.choice([0, 1, 2, 42, -3, 0.5, 1.5, 100, 1e3, 0x1F])
    if c < 0.75:
        return rng.choice(['', 'txt', 'hello world', 'a"b', 'x;y', 'CamelCase'])
    return [gen_value(rng, depth + 1) if depth < 2 else rng.randint(0, 9) for _ in range(rng.randint(0, 3))]


def emit_value(v):
    if isinstance(v, list):
        return '{' + ', '.join(emit_value(x) for x in v) + '}'
    if isinstance(v, str):
        return '"' + v.replace('"', '""') + '"'
    if isinstance(v, float) and v == int(v) and abs(v) < 1e6:
        return str(int(v))
    return repr(v)


class CfgGen:
    def __init__(self, rng, avoid):
        self.rng = rng
        self.avoid = avoid
        self.feats = set()

    def body(self, node, depth):
        """generates items for the body of `node` (a model Node that is updated on the fly so that choices can depend on what is visible)"""
        r = self.rng
        items = []
        for _ in range(r.randint(0, 4)):
            c = r.random()
            if c < 0.4:
                name = r.choice(FIELDS)
                if node.own.get(name) == ('deleted',) and 'readd-after-delete' in self.avoid:
                    continue
                v = gen_value(r)
                if isinstance(v, list):
                    items.append(('field', name, v))
                    self.feats.add('array')
                else:
                    items.append(('field', name, v))
                    self.feats.add('text' if isinstance(v, str) else 'number')
                load(node, [items[-1]])
            elif c < 0.5 and node.base is not None and 'delete' not in self.avoid:
                # delete an inherited entry (or, rarely, a missing one)
                cands = [n for n in CLASSES + FIELDS if node.base.lookup(n) is not None and n not in node.own]
                if cands and r.random() < 0.85:
                    name = r.choice(cands)
                    self.feats.add('delete-inherited')
                else:
                    name = r.choice(FIELDS)
                    if name in node.own:
                        continue
                    self.feats.add('delete-missing')
                items.append(('delete', name))
                load(node, [items[-1]])
            elif c < 0.6 and node.base is not None:
                cands = [n for n in FIELDS if n not in node.own and (lambda e: e and e[0] == 'val' and isinstance(e[1], list))(node.base.lookup(n))]
                if not cands:
                    continue
                name = r.choice(cands)
                items.append(('append', name, [gen_value(r, 2) for _ in range(r.randint(0, 3))]))
                self.feats.add('array-append')
                load(node, [items[-1]])
            elif depth < 3:
                name = r.choice(CLASSES)
                existing = node.own.get(name)
                if existing is not None and not isinstance(existing, Node):
                    continue   # also covers a name that was deleted in this class (recorded defect when defined again)
                base = None
                if r.random() < 0.5:
                    visible = []
                    n = node
                    while n is not None:
                        for k, e in n.own.items():
                            # the class's own name is a valid base when the class is new here and an enclosing scope defines that name
                            if isinstance(e, Node) and (k != name or (existing is None and n is not node)) and k not in visible:
                                visible.append(k)
                        n = n.parent
                    # the base must not (transitively) be derived from the class itself or enclose it
                    cands = []
                    for b in visible:
                        bn = node.lookup_logical(b)
                        if bn is None or bn is existing:
                            continue
                        chain = bn
                        ok = True
                        steps = 0
                        while chain is not None and steps < 50:
                            if existing is not None and chain is existing:
                                ok = False
                            chain = chain.base
                            steps += 1
                        enc = node
                        while enc is not None:
                            if enc is bn:
                                ok = False
                            enc = enc.parent
                        if ok:
                            cands.append(b)
                    if cands:
                        base = r.choice(cands)
                        if base == name or (name in cands and r.random() < 0.5):
                            base = name
                            self.feats.add('same-name-base-from-outer-scope')
                        self.feats.add('inheritance')
                if existing is not None:
                    self.feats.add('reopen' + ('-new-base' if base else ''))
                # create in the model first, then generate the body against it
                load(node, [('class', name, base, [])])
                child = node.own[name]
                sub = self.body(child, depth + 1)
                items.append(('class', name, base, sub))
        return items


def _body_root(self, root):
    # only classes at the top level of a file (the grammar does not take entries after a class there)
    items = []
    for _ in range(self.rng.randint(1, 4)):
        name = self.rng.choice(CLASSES)
        existing = root.own.get(name)
        base = None
        if self.rng.random() < 0.4:
            cands = [k for k, e in root.own.items() if isinstance(e, Node) and k != name and not _derives(e, existing)]
            if cands:
                base = self.rng.choice(cands)
                self.feats.add('inheritance')
        if existing is not None and 'self-base' not in self.avoid and self.rng.random() < 0.12:
            # an attempt to make the inheritance relation cyclic: the class itself, or a class derived from it, as its new base
            cyc = [k for k, e in root.own.items() if isinstance(e, Node) and (e is existing or _derives(e, existing))]
            if cyc:
                base = self.rng.choice(cyc)
                self.feats.add('cyclic-base-attempt')
        if existing is not None:
            self.feats.add('reopen' + ('-new-base' if base else ''))
        load(root, [('class', name, base, [])])
        items.append(('class', name, base, self.body(root.own[name], 1)))
    return items


def _derives(node, target):
    steps = 0
    while node is not None and steps < 100:
        if node is target and target is not None:
            return True
        node = node.base
        steps += 1
    return False


CfgGen.body_root = _body_root


def emit(items, ind=0):
    out = []
    pad = '  ' * ind
    for it in items:
        if it[0] == 'class':
            out.append('%sclass %s%s {' % (pad, it[1], (' : ' + it[2]) if it[2] else ''))
            out += emit(it[3], ind + 1)
            out.append(pad + '};')
        elif it[0] == 'decl':
            out.append('%sclass %s;' % (pad, it[1]))
        elif it[0] == 'field':
            if isinstance(it[2], list):
                out.append('%s%s[] = %s;' % (pad, it[1], emit_value(it[2])))
            else:
                out.append('%s%s = %s;' % (pad, it[1], emit_value(it[2])))
        elif it[0] == 'append':
            out.append('%s%s[] += %s;' % (pad, it[1], emit_value(it[2])))
        elif it[0] == 'delete':
            out.append('%sdelete %s;' % (pad, it[1]))
    return out


# ---- queries ----------------------------------------------------------------------------------------------------------------------

def all_paths(root, maxdepth=3):
    """existing paths through own and inherited classes, plus one missing step at every level"""
    paths = [[]]
    out = []
    names = CLASSES + FIELDS + ['Zz']
    frontier = [([], root)]
    for d in range(maxdepth):
        nxt = []
        for path, node in frontier:
            for n in names:
                p = path + [n]
                out.append(p)
                if node is not None:
                    e = node.lookup(n)
                    if isinstance(e, Node):
                        nxt.append((p, e))
        frontier = nxt
    return out


def resolve(root, path):
    cur = root
    for n in path:
        if not isinstance(cur, Node):
            return None
        cur = cur.lookup(n)
        if cur is None:
            return None
    return cur


def expected(root, path, has_delete):
    e = resolve(root, path)
    if e is None:
        return ['null']
    if isinstance(e, Node):
        hier = []
        n = e
        while n is not None and n.parent is not None:
            hier.append(n.name)
            n = n.parent
        hier.reverse()
        own = None if has_delete(e) else [k for k in e.order]
        return ['class', e.name, e.base.name if e.base else '<none>', hier, own]
    v = e[1]
    if isinstance(v, list):
        return ['array', _norm(v)]
    if isinstance(v, str):
        return ['text', v]
    return ['number', f32(v)]


def _norm(v):
    if isinstance(v, list):
        return [_norm(x) for x in v]
    if isinstance(v, (int, float)) and not isinstance(v, bool):
        return f32(v)
    return v


def query_src(path, idx):
    e = 'configFile' + ''.join(' >> "%s"' % n for n in path)
    return ('vh_c = %s; diag_log str [%d, if (isNull vh_c) then {["null"]} else {'
            'if (isNumber vh_c) then {["number", getNumber vh_c]} else {'
            'if (isText vh_c) then {["text", getText vh_c]} else {'
            'if (isArray vh_c) then {["array", getArray vh_c]} else {'
            '["class", configName vh_c, (if (isNull (inheritsFrom vh_c)) then {"<none>"} else {configName (inheritsFrom vh_c)}), configHierarchy vh_c, '
            '[count vh_c, isClass vh_c]]}}}}]') % (e, idx)


def own_src(path, idx, n):
    e = 'configFile' + ''.join(' >> "%s"' % x for x in path)
    sel = ', '.join('configName ((%s) select %d)' % (e, i) for i in range(n))
    return 'diag_log str [%d, count (%s), [%s]]' % (idx, e, sel)


def main(tier):
    chk = core.Check(PROP, 'exploration', tier)
    runner = core.Runner('asan')
    avoid = {e['avoid'] for e in chk.findings.open if e.get('avoid')}
    n = 700 if tier == 'quick' else 20000
    cases = []
    items = []
    for i in range(n):
        rng = core.rng('c15', i)
        root = Node('bin\\config.bin', None)
        g = CfgGen(rng, avoid)
        texts = []
        stages = []     # per load: (paths, expected) asked right after it - the model as it stands at that moment
        asked = []

        def has_delete(node):
            return any(v == ('deleted',) for v in node.own.values())

        def stage():
            # queries between the loads: half of them repeat paths asked after an earlier load (an answer remembered from before the
            # load must not survive it), the rest is drawn from what exists now
            ps = all_paths(root)
            rng.shuffle(ps)
            again = list(asked)
            rng.shuffle(again)
            pick = again[:12 if tier == 'quick' else 40] + [p_ for p_ in ps if p_ not in again][:12 if tier == 'quick' else 40]
            for p_ in pick:
                if p_ not in asked:
                    asked.append(p_)
            stages.append((pick, [expected(root, p_, has_delete) for p_ in pick]))

        for _ in range(rng.randint(1, 4)):
            items_ast = [it for it in g.body_root(root) ]
            if not items_ast:
                continue
            texts.append('\n'.join(emit(items_ast)) + '\n')
            stage()
        if not texts:
            texts.append('class A { p = 1; };\n')
            load(root, [('class', 'A', None, [('field', 'p', 1)])])
            stage()
        if len(texts) > 1:
            g.feats.add('several-loads')
            g.feats.add('queries-between-loads')
        # the last stage is replaced by the full sample (it includes every path asked before)
        paths = all_paths(root)
        rng.shuffle(paths)
        paths = paths[:60 if tier == 'quick' else 200]
        paths = paths + [p_ for p_ in asked if p_ not in paths][:30 if tier == 'quick' else 100]
        stages[-1] = (paths, [expected(root, p_, has_delete) for p_ in paths])
        steps = [{'op': 'vm', 'vm': 0, 'ops': 'basic', 'max_runtime_ms': 0}]
        flat_paths, flat_exp = [], []
        nq_total = 0
        for t, (ps, ex) in zip(texts, stages):
            steps.append({'op': 'cfg', 'vm': 0, 'src': t, 'nopp': True})
            q = []
            for p_, e in zip(ps, ex):
                k = len(flat_paths)
                flat_paths.append(p_)
                flat_exp.append(e)
                q.append(query_src(p_, k))
                if e[0] == 'class' and e[4] is not None:
                    q.append(own_src(p_, 100000 + k, len(e[4])))
            nq_total += len(q)
            # the SQF parser is quadratic in the number of statements (C10): the queries go in chunks
            for c0 in range(0, len(q), 40):
                steps.append({'op': 'run', 'vm': 0, 'src': ';\n'.join(q[c0:c0 + 40]), 'nopp': True})
        steps[-1]['nq'] = nq_total
        paths, exp = flat_paths, flat_exp
        cases.append((texts, paths, exp, g.feats))
        items.append(steps)
    results = core.run_items(runner, [], items, batch=10, base_cpu_ms=4000, item_cpu_ms=lambda it: 1500 + 10 * it[-1].get('nq', 60), counters=chk.counters, max_deaths=25)
    allfeats = set()
    from .c07 import parse_dump
    for i, ((texts, paths, exp, feats), r) in enumerate(zip(cases, results)):
        chk.evaluations += 1
        chk.sig('+'.join(sorted(feats)) + '|%d' % len(texts))
        allfeats |= feats
        rep = {'texts': texts}
        if i < 2:
            chk.sample(texts)
        if isinstance(r, core.Death):
            chk.death_is_violation(r, 'configuration #%d' % i, rep, sig_prefix='cfg')
            continue
        bad_load = [st for stp, st in zip(items[i], r) if stp['op'] == 'cfg' and (not st.get('ok') or 'exc' in st)]
        if bad_load:
            errs = [l[2][:150] for st in bad_load for l in core.logs_of(st) if l[0] <= 1]
            chk.violation('load-failed|' + (errs[0].split('\t')[-1][:30] if errs else '?'), 'configuration #%d: a generated config text was rejected: %s' % (i, errs[:2] or bad_load[0].get('exc')), rep)
            continue
        qsteps = [st for stp, st in zip(items[i], r) if stp['op'] == 'run']
        errs = [l for st in qsteps for l in core.logs_of(st) if l[0] <= 1]
        obs = {}
        for v in [v_ for st in qsteps for v_ in core.diag_values(core.logs_of(st))]:
            try:
                d = parse_dump(v)
            except Exception:
                continue
            obs[int(d[0])] = d[1:]
        for k, (p, e) in enumerate(zip(paths, exp)):
            chk.count('queries')
            o = obs.get(k)
            pathtxt = 'configFile >> ' + ' >> '.join(p)
            if o is None:
                chk.violation('query-failed|' + e[0], 'configuration #%d: query of %s produced nothing (%s)' % (i, pathtxt, [x[2][:120] for x in errs[:1]]), dict(rep, path=p))
                break
            o = o[0]
            if e[0] == 'null':
                ok = o == ['null']
                what = 'finds-undefined-entry'
            elif e[0] == 'class':
                ok = o[0] == 'class' and o[1] == e[1]
                what = 'class-lookup'
                if ok and o[2] != e[2]:
                    ok, what = False, 'inheritsFrom'
                if ok and o[3] not in (e[3], [e[3][0]] + e[3] if False else e[3], ['bin\\config.bin'] + e[3], ['config/bin'] + e[3]):
                    ok, what = False, 'configHierarchy'
                if ok and o[4][1] is not True:
                    ok, what = False, 'isClass'
                if ok and e[4] is not None:
                    oo = obs.get(100000 + k)
                    if oo is None or int(oo[0]) != len(e[4]) or oo[1] != e[4]:
                        ok, what = False, 'count-select-own-entries'
                        o = oo
            else:
                if e[0] == 'number':
                    ok = o[0] == 'number' and float(o[1]) == float(e[1])
                else:
                    ok = o == [e[0], e[1]] or (e[0] == 'array' and o[0] == 'array' and _cmp(o[1], e[1]))
                what = 'value-readback|' + e[0]
            if not ok:
                tag = '+'.join(sorted(f for f in feats if f in ('delete-inherited', 'array-append', 'reopen', 'reopen-new-base', 'several-loads')))
                chk.violation('%s|%s' % (what, tag), 'configuration #%d: %s gives %s, the reference model gives %s' % (i, pathtxt, json.dumps(o)[:200], json.dumps(e)[:200]), dict(rep, path=p, expected=e, observed=o))
                break
    chk.counters['features_seen'] = sorted(allfeats)
    # probes (termination and recorded findings)
    for e in chk.findings.open + chk.findings.fixed:
        if not e.get('probe_cfg'):
            continue
        steps = [{'op': 'vm', 'vm': 0, 'max_runtime_ms': 300}] + [{'op': 'cfg', 'vm': 0, 'src': t, 'nopp': True} for t in e['probe_cfg']] + [{'op': 'run', 'vm': 0, 'src': e['probe'], 'nopp': True}]
        r = runner.run([{'steps': steps, 'cpu_ms': 8000}], retry_timeouts=False)[0]
        bad = isinstance(r, core.Death) or core.diag_values(core.logs_of(r['res'][-1])) != e['expect_trace']
        chk.count('probes')
        if e['status'] == 'open':
            if bad:
                chk.known(e['id'])
            else:
                chk.notes.append('known finding %s no longer reproduces' % e['id'])
        elif bad:
            chk.violation('regressed:' + e['id'], 'fixed finding %s regressed' % e['id'], {'texts': e['probe_cfg'], 'src': e['probe']})
    return chk.finish(
        rule='1-4 config texts per VM over class names A-F and entry names p,q,r,arr,lst: nested classes (depth <= 3), single inheritance from a visible class, re-opening (also with a new base), '
             'delete of inherited/missing entries, array append to an inherited array, numbers/strings/nested arrays; then up to %d paths (existing or not) queried with '
             '>>, isNumber/isText/isArray/isClass, getNumber/getText/getArray, configName, inheritsFrom, configHierarchy, count, select; distinct = (feature set, number of loads)' % (60 if tier == 'quick' else 200),
        min_evaluations=100,
        assumptions=['reference config model in this module (own entries in declaration order, base resolved by enclosing-scope lookup at definition time, merge on re-open, delete marker hides, += prepends the inherited array)',
                     'base classes are chosen so that the inheritance relation stays acyclic, except for deliberate cyclic attempts on re-opened top-level classes, which the model (like the repaired code) refuses'])


def _cmp(a, b):
    if isinstance(a, list) and isinstance(b, list):
        return len(a) == len(b) and all(_cmp(x, y) for x, y in zip(a, b))
    if isinstance(a, (int, float)) and isinstance(b, (int, float)) and not isinstance(a, bool) and not isinstance(b, bool):
        return float(a) == float(b)
    return a == b


def replay(path):
    with open(path) as f:
        d = json.load(f)
    for t in d['replay'].get('texts', []):
        print(t)
        print('----')
    print(json.dumps({k: v for k, v in d['replay'].items() if k != 'texts'})[:1500])
    return 1
