"""C18 - C API contract: truthful return codes, complete logging, reusable instances.
Histories of API calls (export/sqfvm.cpp linked as is) on one to three instances; a small model predicts the return code,
the diag_log output, the callback attribution (user data / call data) and the state visible to later calls (globals and config
persist, nothing else does)."""
import json

from .. import core

PROP = 'C18'

PARSE_ERRORS = ['[1,2', 'if then', '{', '1 +', ')', 'private _a = ;', 'someUndefinedCommand_vh 1']
PP_ERRORS = ['#include "nonexistent_%d.hpp"\n1', '#endif\n1', '#ifdef VH_X\n1', '#else\n1', '#unknownDirective\n1', '#include "a.hpp\n1']
FAULTS = ['[1] select 7', '3 + "a"', 'toUpper 4', 'throw "boom"', '[1, 2] select (-3)', '[1, 2] set [-4, 0]', '{ 1 } forEach 5', '[1] call {1 + []}', 'call {call {count 5}}']
BAD_TYPES = ['x', 'S', 'A', 'P', '2', 'z', '\u0000', ' ']
HOSTILE = ['/*', '"', "'", '{{{{{{{{{{', '[[[[[[[[[[[[', '((((((((', '#define A(x) A(x)\nA(1)', '\\\n', '\xff\xfe\x00', '1 }', ';;;;;;', 'if (true) then {', '#', '##', '#define', 'call {call {call {', '0x', '1e999', '$', '"a" + ', '_x = {', '\t\r\n ']
CFG_BAD = [('class X { v = ; };', -3), ('class Y {', -3), ('#include "nonexistent_cfg.hpp"\nclass Z {};', -2), ('class W { a[] = {1,2; };', -3), ('#endif\nclass V {};', -2)]


class Inst:
    def __init__(self, h, kind, max_s, user):
        self.h, self.kind, self.max_s, self.user = h, kind, max_s, user
        self.globals = {}
        self.cfg = {}
        self.alive = True
        self.frozen = None      # name of a counter global that a killed background script incremented


RECURSIVE_MACRO = '#define A(x) A(x)\nA(1)'


def gen_history(rng, hid, avoid=()):
    """returns (steps, expectations); expectation = dict describing how to judge that step's result"""
    steps, exps = [], []
    insts = []
    call_seq = [100 * (hid % 1000 + 1)]

    def add(step, exp):
        steps.append(step)
        exps.append(exp)

    def new_inst():
        h = len(insts) + 1
        kind = rng.choice(['full', 'basic', 'basic', 'basic'])      # 'full' registers ~2500 operators per instance; keep most instances small
        max_s = rng.choice([0, 0, 0.05, 0.02, 0.3])
        inst = Inst(h, kind, max_s, 7000 + 10 * hid % 100000 + h)
        insts.append(inst)
        add({'op': 'api_create', 'h': h, 'kind': kind, 'max_s': max_s, 'user': inst.user}, {'kind': 'create'})
        return inst

    def call(inst, code, exp, type_='s'):
        call_seq[0] += 1
        exp = dict(exp, inst=inst.h, user=inst.user, call=call_seq[0], code=code, type=type_)
        add({'op': 'api_call', 'h': inst.h, 'type': type_, 'code': code, 'call_data': call_seq[0]}, exp)

    def read_expr(inst):
        names = sorted(inst.globals)
        unset = 'gu%d' % rng.randrange(5)
        picks = rng.sample(names, min(len(names), 3))
        expr = '[%s]' % ', '.join(['"r"'] + picks + ['isNil "%s"' % unset])
        want = '[%s]' % ','.join(['"r"'] + [str(inst.globals[n]) for n in picks] + ['true' if unset not in inst.globals else 'false'])
        return 'diag_log str ' + expr, want

    new_inst()
    n_ops = rng.randint(6, 16)
    for _ in range(n_ops):
        if len(insts) < 3 and rng.random() < 0.12:
            new_inst()
            continue
        inst = rng.choice(insts)
        k = rng.random()
        v = rng.randrange(1, 10 ** 6)
        if k < 0.2:
            name = 'g%s%d' % (rng.choice('abcd'), rng.randrange(3))
            shown = name if rng.random() < 0.5 else name.upper()       # globals are case-insensitive
            inst.globals[name] = v
            call(inst, '%s = %d; diag_log str ["m", %s]' % (shown, v, name), {'kind': 'ok', 'diag': ['["m",%d]' % v]})
        elif k < 0.35:
            src, want = read_expr(inst)
            call(inst, src, {'kind': 'ok', 'diag': [want]})
        elif k < 0.47:
            name = 'ge%d' % rng.randrange(3)
            inst.globals[name] = v
            fault = rng.choice(FAULTS)
            call(inst, '%s = %d; diag_log str ["b", %d]; %s; diag_log str ["after", %d]; %s = 0' % (name, v, v, fault, v, name), {'kind': 'error', 'diag': ['["b",%d]' % v], 'absent': '["after",%d]' % v})
        elif k < 0.55:
            call(inst, rng.choice(PARSE_ERRORS), {'kind': 'parse'})
        elif k < 0.62:
            c = rng.choice(PP_ERRORS)
            call(inst, c % v if '%d' in c else c, {'kind': 'pp'})
        elif k < 0.67:
            call(inst, 'diag_log str ["never"]', {'kind': 'badtype'}, type_=rng.choice(BAD_TYPES))
        elif k < 0.71:
            hh = rng.choice([-1, -2])
            call_seq[0] += 1
            add({'op': 'api_call', 'h': hh, 'type': 's', 'code': 'diag_log 1', 'call_data': call_seq[0]}, {'kind': 'badhandle'})
        elif k < 0.76:
            name = 'gp%d' % rng.randrange(3)
            call(inst, '#define VH_M%d %d\n%s = VH_M%d;' % (v, v, name, v), {'kind': 'pponly', 'contains': '%s = %d;' % (name, v)}, type_='p')
            # not executed: the global keeps its previous state
        elif k < 0.82:
            name = 'gs%d' % rng.randrange(3)
            inst.globals[name] = v
            nap = 'sleep 0.00%d; ' % rng.randint(1, 5) if (inst.max_s == 0 or inst.max_s >= 0.3) and rng.random() < 0.5 else ''
            call(inst, '%s = 0; [] spawn { %s%s = %d }; diag_log str ["s"]' % (name, nap, name, v), {'kind': 'ok', 'diag': ['["s"]']})
        elif k < 0.88 and inst.max_s > 0:
            name = 'gt%d' % rng.randrange(3)
            inst.globals[name] = v
            if rng.random() < 0.5:
                code = '%s = %d; diag_log str ["b", %d]; for "_i" from 0 to 100000000 do { vh_l = _i }; diag_log str ["after", %d]' % (name, v, v, v)
                inst.globals.pop('vh_l', None)
            else:
                cnt = 'gk%d' % rng.randrange(3)
                inst.globals.pop(cnt, None)
                inst.frozen = cnt
                code = '%s = %d; diag_log str ["b", %d]; %s = 0; [] spawn { while {true} do { %s = %s + 1; sleep 0.001 } }; waitUntil { false }; diag_log str ["after", %d]' % (name, v, v, cnt, cnt, cnt, v)
                code = '%s = %d; diag_log str ["b", %d]; %s = 0; [] spawn { while {true} do { %s = %s + 1; sleep 0.001 } };' % (name, v, v, cnt, cnt, cnt)
            call(inst, code, {'kind': 'timeout', 'diag': ['["b",%d]' % v], 'absent': '["after",%d]' % v, 'max_s': inst.max_s})
            if inst.frozen:
                # no pending script carries over: the counter must not move between two later calls
                call(inst, 'vh_c1 = %s; diag_log str ["f"]' % inst.frozen, {'kind': 'ok', 'diag': ['["f"]']})
                call(inst, 'diag_log str ["f2", vh_c1 isEqualTo %s]' % inst.frozen, {'kind': 'ok', 'diag': ['["f2",true]']})
                inst.frozen = None
        elif k < 0.93:
            cname = 'Cfg%s%d' % (rng.choice('AB'), rng.randrange(3))
            if rng.random() < 0.7:
                inst.cfg[cname] = v
                add({'op': 'api_load_config', 'h': inst.h, 'text': 'class %s { v = %d; };' % (cname, v)}, {'kind': 'cfg', 'ret': 0, 'user': inst.user, 'inst': inst.h})
            else:
                text, ret = rng.choice(CFG_BAD)
                add({'op': 'api_load_config', 'h': inst.h, 'text': text}, {'kind': 'cfg', 'ret': ret, 'user': inst.user, 'inst': inst.h})
            if inst.cfg:
                cn = rng.choice(sorted(inst.cfg))
                call(inst, 'diag_log str ["c", getNumber (configFile >> "%s" >> "v")]' % cn, {'kind': 'ok', 'diag': ['["c",%d]' % inst.cfg[cn]]})
        elif k < 0.96:
            add({'op': 'clock', 'ms': rng.choice([1, 60, 400, 5000])}, {'kind': 'clock'})
        elif k < 0.98:
            add({'op': 'api_status', 'h': inst.h}, {'kind': 'status', 'ret': 0})
        else:
            h = rng.choice(HOSTILE)
            if h == RECURSIVE_MACRO and 'api-recursive-macro' in avoid:
                h = '#define A(x) B(x)\nA(1)'
            call(inst, h, {'kind': 'hostile'})
    # closing reads: everything the model believes is visible, per instance
    for inst in insts:
        src, want = read_expr(inst)
        call(inst, src, {'kind': 'ok', 'diag': [want]})
    for inst in insts:
        add({'op': 'api_destroy', 'h': inst.h}, {'kind': 'destroy'})
    return steps, exps


SLACK_MS = 15


def judge(chk, hid, steps, exps, res, replay):
    prev_kind = 'first'
    for idx, (st, exp, r) in enumerate(zip(steps, exps, res)):
        kind = exp['kind']
        where = 'history #%d step %d (%s after %s)' % (hid, idx, kind, prev_kind)

        def bad(key, msg):
            chk.violation('%s|%s|after-%s' % (key, kind, prev_kind), '%s: %s\n  call: %r' % (where, msg, (st.get('code') or st.get('text') or '')[:300]), dict(replay, failing_step=idx))
            return False
        if 'exc' in r:
            return bad('exception', 'a C++ exception escaped the API: %s' % r['exc'])
        cb = r.get('cb', [])
        if kind in ('create', 'destroy', 'clock'):
            if kind == 'create' and not r.get('ok'):
                return bad('create-failed', 'sqfvm_create_instance returned NULL')
            continue
        chk.count('calls_' + kind)
        diag = [c[3].split('[DIAG_LOG] ', 1)[1] for c in cb if '[DIAG_LOG] ' in c[3]]
        errors = [c for c in cb if 0 <= c[2] <= 1]
        # attribution of every record delivered during this step
        if kind not in ('badhandle',):
            for c in cb:
                if c[0] != exp['user']:
                    return bad('wrong-user-data', 'callback delivered user data %d, the instance was created with %d' % (c[0], exp['user']))
                if 'call' in exp and c[1] != exp['call']:
                    return bad('wrong-call-data', 'callback delivered call data %d during the call made with %d (%r)' % (c[1], exp['call'], c[3][:80]))
        if kind == 'badhandle':
            if r['ret'] != -1 or cb:
                return bad('ret', 'invalid handle: returned %d (documented -1), %d callback records' % (r['ret'], len(cb)))
            continue
        if kind == 'status':
            if r['ret'] != 0:
                return bad('status', 'sqfvm_status of an idle instance returned %d' % r['ret'])
            continue
        if kind == 'cfg':
            if r['ret'] != exp['ret']:
                return bad('ret', 'sqfvm_load_config returned %d, documented %d' % (r['ret'], exp['ret']))
            if r['status'] != 0:
                return bad('status', 'status %d after sqfvm_load_config' % r['status'])
            if exp['ret'] != 0 and not errors:
                return bad('silent-failure', 'sqfvm_load_config failed with %d but delivered no error diagnostic' % r['ret'])
            prev_kind = 'cfg' if exp['ret'] == 0 else 'cfg-failed'
            continue
        want_ret = {'ok': 0, 'error': -6, 'parse': -3, 'pp': -2, 'badtype': -5, 'pponly': 0, 'timeout': -6}.get(kind)
        if want_ret is not None and r['ret'] != want_ret:
            return bad('ret', 'sqfvm_call returned %d, documented %d; diagnostics: %s' % (r['ret'], want_ret, [c[3][:100] for c in cb if c[2] <= 2][:4]))
        if r['status'] != 0:
            return bad('status', 'sqfvm_status is %d after the call returned %d' % (r['status'], r['ret']))
        if kind in ('ok', 'error', 'timeout'):
            if diag[:len(exp['diag'])] != exp['diag'] or (kind == 'ok' and diag != exp['diag']):
                return bad('output', 'diag_log output delivered to the callback %s, expected %s' % (diag, exp['diag']))
        if kind in ('error', 'timeout') and exp['absent'] in diag:
            return bad('ran-on', 'statements after the %s were executed: %s' % ('runtime error' if kind == 'error' else 'time limit', diag))
        if kind == 'ok' and errors:
            return bad('stale-error', 'a call that returned 0 delivered error diagnostics: %s' % [c[3][:120] for c in errors][:3])
        if kind in ('error', 'parse', 'pp') and not errors:
            return bad('silent-failure', 'the call failed with %d but delivered no error diagnostic' % r['ret'])
        if kind == 'badtype' and diag:
            return bad('executed-badtype', 'unknown type %r executed the code' % st['type'])
        if kind == 'pponly':
            results = [c for c in cb if c[2] == -1]
            if len(results) != 1 or exp['contains'] not in results[0][3] or diag:
                return bad('pponly', "type 'p' delivered %s" % [c[3][:100] for c in cb][:3])
        if kind == 'timeout':
            dur_ms = (r['t1'] - r['t0']) / 1e6
            if dur_ms > exp['max_s'] * 1000 + SLACK_MS:
                return bad('overrun', 'the call ran %.1f virtual ms with max_runtime_seconds %g' % (dur_ms, exp['max_s']))
            if not any('untime of' in c[3] for c in cb):
                return bad('no-limit-diagnostic', 'the call was cut short without the time-limit diagnostic')
        if kind == 'hostile':
            if r['ret'] not in (0, -2, -3, -6):
                return bad('ret', 'malformed input returned undocumented code %d' % r['ret'])
            if r['ret'] == 0 and errors:
                return bad('stale-error', 'malformed input returned 0 with error diagnostics %s' % [c[3][:100] for c in errors][:2])
        prev_kind = kind
    return True


ASM_INPUTS = ['push 1', 'push 1;', ';', 'push "a"\nassignTo "gq"\nendStatement', 'callNular diag_tickTime', 'getVariable "gq"', 'xyz', '%', 'push {push 1} callUnary call', 'push [1,2] callUnary count', '', 'push', 'assignToLocal "_a"', 'callBinary +']


def main(tier):
    chk = core.Check(PROP, 'exploration', tier)
    runner = core.Runner('asan')
    avoid = {e['avoid'] for e in chk.findings.open if e.get('avoid')}
    n = 500 if tier == 'quick' else 12000
    hist = []
    items = []
    for i in range(n):
        rng = core.rng('c18', i)
        steps, exps = gen_history(rng, i, avoid)
        hist.append((steps, exps))
        items.append([{'op': 'api_reset'}, {'op': 'clock_delta', 'ns': 1000}] + steps)
    results = core.run_items(runner, [], items, batch=6, base_cpu_ms=6000, item_cpu_ms=lambda it: 2500 * sum(1 for s in it if s['op'] == 'api_create') + 150 * len(it) + 6000 * sum(1 for s in it if 'spawn { while' in s.get('code', '') or '100000000' in s.get('code', '')), counters=chk.counters, max_deaths=30)
    for i, ((steps, exps), r) in enumerate(zip(hist, results)):
        chk.evaluations += 1
        replay = {'steps': steps}
        chk.sig('|'.join(e['kind'] for e in exps))
        if i < 2:
            chk.sample({'history': [(e['kind'], (s.get('code') or s.get('text') or '')[:60]) for s, e in zip(steps, exps)][:10]})
        if isinstance(r, core.Death):
            k = r.get('step')
            at = exps[k - 2]['kind'] if k is not None and 2 <= k < len(exps) + 2 else '?'
            chk.death_is_violation(r, 'history #%d at step %s (%s)' % (i, k, at), replay, sig_prefix='api|' + at, sig_suffix='api')
            continue
        judge(chk, i, steps, exps, r[2:], replay)
    # type 'a' (assembly): a handful of single-call cases, each in its own process
    cases = []
    for code in ASM_INPUTS:
        cases.append({'steps': [{'op': 'api_create', 'h': 1, 'kind': 'basic', 'max_s': 0.05, 'user': 5}, {'op': 'api_call', 'h': 1, 'type': 'a', 'code': code, 'call_data': 9},
                                {'op': 'api_call', 'h': 1, 'type': 's', 'code': 'diag_log str ["alive"]', 'call_data': 10}], 'cpu_ms': 4000, 'journal_steps': True})
    cases.append({'steps': [{'op': 'api_create', 'h': 1, 'kind': 'basic', 'max_s': 0.05, 'user': 5}, {'op': 'api_call', 'h': 1, 'type': 's', 'code': RECURSIVE_MACRO, 'call_data': 9}], 'cpu_ms': 20000, 'journal_steps': True})
    res = runner.run(cases, retry_timeouts=False)
    r = res.pop()
    chk.evaluations += 1
    if isinstance(r, core.Death):
        chk.death_is_violation(r, 'sqfvm_call with a self-recursive macro', {'code': RECURSIVE_MACRO}, sig_prefix='api|recursive-macro', sig_suffix='api-probe')
    elif r['res'][1]['ret'] != -2:
        chk.violation('recursive-macro-ret', 'self-recursive macro returned %d (documented -2: preprocessing failed)' % r['res'][1]['ret'], {'code': RECURSIVE_MACRO})
    for code, r in zip(ASM_INPUTS, res):
        chk.evaluations += 1
        chk.count('assembly_calls')
        chk.sig('asm|' + code[:20])
        replay = {'type': 'a', 'code': code}
        if isinstance(r, core.Death):
            chk.death_is_violation(r, "sqfvm_call type 'a' with %r" % code, replay, sig_prefix='api|type-a', sig_suffix='api-a')
            continue
        st = r['res'][1]
        if st['ret'] not in (0, -3, -6) or st['status'] != 0:
            chk.violation('asm-ret', "type 'a' with %r returned %d, status %d" % (code, st['ret'], st['status']), replay)
        elif st['ret'] == 0 and any(0 <= c[2] <= 1 for c in st['cb']):
            if not chk.known('c18-assembly-front-end-unfinished'):
                chk.violation('asm-stale-error', "type 'a' with %r returned 0 with error diagnostics" % code, replay)
    return chk.finish(
        rule='histories of 8-25 API steps on 1-3 instances (create, call with types s/p/unknown, succeeding, erroring, unparsable, unpreprocessable, non-terminating under a time limit, malformed input, '
             'load_config good/bad, status, invalid handles, idle time between calls, destroy); distinct = sequence of step kinds',
        min_evaluations=100,
        assumptions=['time is virtual (1 us per clock query); the time-limit cases need max_runtime_seconds > 0',
                     "type 'c' and '1' depend on the optional SQC build and are not exercised; use after destroy is outside the contract (dangling pointer) and not exercised"])


def replay(path):
    with open(path) as f:
        d = json.load(f)
    print(json.dumps(d['replay'], indent=1)[:3000])
    return 1
