"""C16 - the virtual file system resolves deterministically and never leaves the mapped roots.
Every file of a generated sandbox tree carries a token naming its own physical path (canary files outside all mapped roots
included). Requests go through loadFile, preprocessFileLineNumbers, execVM and #include; the token that comes back tells which
file was really used and is compared with a reference resolver. Escapes are judged only by 'a canary token was returned'."""
import json
import os
import re
import shutil

from .. import core

PROP = 'C16'
RELFILES = ['a.sqf', 'b.sqf', 'sub/c.sqf', 'sub/deep/d.sqf', 'data/foo.sqf', 'data/foobar.sqf', 'data/foo/e.sqf', 'x/y/f.sqf', 'sub/a.sqf', 'inc.hpp', 'sub/inc2.hpp']
PREFIXES = ['/', '/data', '/data/foo', '/sub', '/x/y', '/lib', '/lib/sub', '/x']


def token_for(path):
    return 'TOKEN<%s>' % path


def file_text(path):
    t = token_for(path)
    return 'vh_tok = "%s"; diag_log "%s";\n' % (t, t)


class Sandbox:
    def __init__(self, rng, root):
        self.rng = rng
        self.root = root
        self.files = set()
        self.mappings = []      # (physical dir, virtual prefix) in registration order
        nroots = rng.randint(1, 5)
        self.roots = [os.path.join(root, 'm', 'r%d' % i) for i in range(nroots)]
        for r_ in self.roots:
            os.makedirs(r_, exist_ok=True)
            for rel in rng.sample(RELFILES, rng.randint(2, len(RELFILES))):
                self.add(os.path.join(r_, rel))
        # include chain: files in different directories that include the same relative names; lives in exactly one root
        self.chain_root = rng.choice(self.roots)
        cr = self.chain_root
        sl = lambda t: t.replace('/', rng.choice(['/', '\\']))
        self.chain = {
            'inc_a/x.hpp': ['#include "defs.hpp"', '#include "%s"' % sl('../inc_b/y.hpp'), '#include "%s"' % sl('deep/z.hpp')],
            'inc_a/defs.hpp': [],
            'inc_b/y.hpp': ['#include "defs.hpp"'],
            'inc_b/defs.hpp': [],
            'inc_a/deep/z.hpp': ['#include "%s"' % sl('../defs.hpp'), '#include "defs.hpp"'],
            'inc_a/deep/defs.hpp': [],
            'inc_a/esc1.hpp': ['#include "%s"' % sl(rng.choice(['../../secret.sqf', '../../../secret.sqf', '../../../outside/secret.sqf', '..//../secret.sqf', 'deep/../../../secret.sqf', 'deep/./../../../secret.sqf', '../../r0x/a.sqf']))],
        }
        for rel, incs in self.chain.items():
            path = os.path.join(cr, rel)
            os.makedirs(os.path.dirname(path), exist_ok=True)
            with open(path, 'w') as f:
                f.write('diag_log "%s";\n' % token_for(path) + ''.join(i + '\n' for i in incs))
            self.files.add(path)
        self.chain_expect = [os.path.join(cr, r_) for r_ in ['inc_a/x.hpp', 'inc_a/defs.hpp', 'inc_b/y.hpp', 'inc_b/defs.hpp', 'inc_a/deep/z.hpp', 'inc_a/defs.hpp', 'inc_a/deep/defs.hpp']]
        # canaries outside every mapped root
        self.canaries = [os.path.join(root, 'outside', 'secret.sqf'), os.path.join(root, 'm', 'secret.sqf'), os.path.join(root, 'secret.sqf'), os.path.join(root, 'm', 'r0x', 'a.sqf')]
        for c in self.canaries:
            self.add(c)
        prefixes = rng.sample(PREFIXES, min(len(PREFIXES), rng.randint(1, 4)))
        if '/' not in prefixes and rng.random() < 0.7:
            prefixes.append('/')
        for p in prefixes:
            for r_ in rng.sample(self.roots, min(len(self.roots), rng.choice([1, 1, 2]))):
                self.mappings.append((r_, p))
        rng.shuffle(self.mappings)

    def add(self, path):
        os.makedirs(os.path.dirname(path), exist_ok=True)
        with open(path, 'w') as f:
            f.write(file_text(path))
        self.files.add(path)

    # ---- reference resolver (requests without '..') ----
    def resolve(self, request):
        """returns the physical file the request denotes, or None; request is virtual-absolute, relative (to the virtual root) or an absolute physical path"""
        req = request.replace('\\', '/').strip()
        if not req:
            return None
        segs = [s for s in req.split('/') if s]
        if '..' in segs or '.' in segs:
            raise ValueError('not determined')
        if req.endswith('/'):
            return None
        # physical absolute path: accepted only below a mapped root, then re-resolved as the corresponding virtual path
        # (several mappings may contain it: any of their re-resolutions is acceptable, "not found" only if all fail)
        norm = os.path.normpath(req)
        if req.startswith(self.root):
            cands = set()
            for r_, p in self.mappings:
                if norm.startswith(r_ + os.sep):
                    cands.add(self.resolve(p.rstrip('/') + '/' + norm[len(r_) + 1:]))
            if not cands:
                return None
            found = {c for c in cands if c is not None}
            return found if found else None
        # virtual: deepest mapped prefix
        best = None
        for r_, p in self.mappings:
            psegs = [s for s in p.split('/') if s]
            if segs[:len(psegs)] == psegs and len(segs) > len(psegs):
                if best is None or len(psegs) > best:
                    best = len(psegs)
        if best is None:
            return None
        for r_, p in self.mappings:
            psegs = [s for s in p.split('/') if s]
            if len(psegs) == best and segs[:best] == psegs:
                cand = os.path.join(r_, *segs[best:])
                if cand in self.files:
                    return cand
        return None

    def intermediate_node_hit(self, request):
        """the request walks through a tree node that exists only as part of a deeper mapping (no directory mapped to it)"""
        segs = [s for s in request.replace('\\', '/').split('/') if s]
        mapped = {tuple(s for s in p.split('/') if s) for _, p in self.mappings}
        nodes = set()
        for m_ in mapped:
            for k in range(1, len(m_) + 1):
                nodes.add(m_[:k])
        deepest_node = 0
        for k in range(1, len(segs)):
            if tuple(segs[:k]) in nodes:
                deepest_node = k
            else:
                break
        return deepest_node > 0 and tuple(segs[:deepest_node]) not in mapped


def gen_requests(rng, sb):
    reqs = []
    vfiles = []
    for r_, p in sb.mappings:
        for f in sb.files:
            if f.startswith(r_ + os.sep) and '/inc_' not in f:
                rel = f[len(r_) + 1:]
                vfiles.append((p.rstrip('/') + '/' + rel, f))
    for r_, p in sb.mappings:
        if r_ == sb.chain_root:
            reqs.append(('chain', p.rstrip('/') + '/inc_a/x.hpp'))
            reqs.append(('dotdot', p.rstrip('/') + '/inc_a/esc1.hpp'))
            break
    for _ in range(rng.randint(6, 12)):
        c = rng.random()
        if c < 0.35 and vfiles:
            v, _f = rng.choice(vfiles)
            style = rng.random()
            if style < 0.25:
                v = v.replace('/', '\\')
            elif style < 0.4:
                v = v.replace('/', '//', 1)
            elif style < 0.5:
                v = v.replace('/', '\\', 1)
            elif style < 0.6 and v.startswith('/') and not v.startswith('//'):
                v = v[1:]       # relative to the virtual root
            reqs.append(('plain', v))
        elif c < 0.45:
            reqs.append(('plain', rng.choice(PREFIXES).rstrip('/') + '/' + rng.choice(RELFILES)))
        elif c < 0.5:
            reqs.append(('plain', rng.choice(PREFIXES).rstrip('/') + '/' + rng.choice(['nothere.sqf', 'sub', 'data/', 'data/foo']) ))
        elif c < 0.6:
            f = rng.choice(sorted(f_ for f_ in sb.files if '/inc_' not in f_))
            reqs.append(('physical', f))
        elif c < 0.7:
            reqs.append(('physical', rng.choice(sb.canaries)))
        else:
            # traversal attempts: a mapped prefix (virtual or physical), then a walk over existing directories, "..", "." and empty
            # segments (duplicate separators) in every order, then a target outside the roots
            segs = [rng.choice(['..', '..', '..', '.', '', 'sub', 'data', 'foo', 'x', 'y', 'deep', 'inc_a']) for _ in range(rng.randint(1, 7))]
            target = rng.choice(['outside/secret.sqf', 'secret.sqf', 'm/secret.sqf', 'r0x/a.sqf', 'a.sqf', 'm/r0/a.sqf']).split('/')
            r_, p = rng.choice(sb.mappings)
            base = rng.choice([p, p, r_, '', rng.choice(PREFIXES)])
            parts = [s_ for s_ in base.split('/')] + segs + target
            out = parts[0]
            for s_ in parts[1:]:
                out += rng.choice(['/', '/', '\\']) + s_
            reqs.append(('dotdot', out))
    return reqs


def steps_for(sb, reqs, main_path):
    """one VM; per request: loadFile, preprocessFileLineNumbers, execVM, #include"""
    steps = [{'op': 'vm', 'vm': 0, 'maps': [[r_, p] for r_, p in sb.mappings], 'max_runtime_ms': 1000}]
    for k, (kind, req) in enumerate(reqs):
        lit = core.sqf_str(req)
        steps.append({'op': 'run', 'vm': 0, 'src': 'diag_log ("LF|" + (loadFile %s))' % lit, 'nopp': True, 'reset_ts': True})
        steps.append({'op': 'run', 'vm': 0, 'src': 'diag_log ("PP|" + (preprocessFileLineNumbers %s))' % lit, 'nopp': True, 'reset_ts': True})
        steps.append({'op': 'run', 'vm': 0, 'src': 'vh_h = [] execVM %s; diag_log "EX|"' % lit, 'nopp': True, 'reset_ts': True})
        if '"' not in req:
            steps.append({'op': 'run', 'vm': 0, 'src': 'vh_tok = "none";\n#include "%s"\ndiag_log ("IN|" + vh_tok);\n' % req, 'path': main_path, 'reset_ts': True})
        else:
            steps.append({'op': 'state', 'vm': 0})
    return steps


TOK = re.compile(r'TOKEN<([^>]*)>')


def main(tier):
    chk = core.Check(PROP, 'exploration', tier)
    runner = core.Runner('asan')
    avoid = {e['avoid'] for e in chk.findings.open if e.get('avoid')}
    base = os.path.join(core.BUILD_ROOT, 'tmp', 'c16_sandbox_%d' % os.getpid())
    shutil.rmtree(base, ignore_errors=True)
    n = 250 if tier == 'quick' else 8000
    cases = []
    items = []
    for i in range(n):
        rng = core.rng('c16', i)
        sb = Sandbox(rng, os.path.join(base, 't%d' % i))
        reqs = gen_requests(rng, sb)
        # the including file sits in the directory mapped to "/" when there is one (relative includes are then also relative to the virtual root)
        rootdirs = [r_ for r_, p in sb.mappings if p == '/']
        main_dir = rootdirs[0] if rootdirs else sb.roots[0]
        main_path = os.path.join(main_dir, 'main_vh.sqf')
        cases.append((sb, reqs, main_path, bool(rootdirs)))
        items.append(steps_for(sb, reqs, main_path))
    results = core.run_items(runner, [], items, batch=4, base_cpu_ms=4000, item_cpu_ms=lambda it: 200 * len(it), counters=chk.counters)
    ops = ['loadFile', 'preprocessFileLineNumbers', 'execVM', '#include']
    for i, ((sb, reqs, main_path, has_root), r) in enumerate(zip(cases, results)):
        chk.evaluations += 1
        chk.sig('%d|%d|%s' % (len(sb.mappings), len(sb.roots), '+'.join(sorted({p for _, p in sb.mappings}))))
        rep = {'mappings': sb.mappings, 'files': sorted(sb.files)}
        if i < 2:
            chk.sample({'mappings': sb.mappings, 'requests': reqs[:6]})
        if isinstance(r, core.Death):
            k = r.get('step')
            at = reqs[(k - 1) // 4][1] if (k is not None and k >= 1 and (k - 1) // 4 < len(reqs) and not r.get('seq_only')) else '?'
            chk.death_is_violation(r, 'tree #%d, request %r' % (i, at), dict(rep, request=at), sig_prefix='vfs')
            continue
        for k, (kind, req) in enumerate(reqs):
            try:
                want = sb.resolve(req) if kind != 'dotdot' else 'UNDETERMINED'
            except ValueError:
                want = 'UNDETERMINED'
            for j, op in enumerate(ops):
                st = r[1 + 4 * k + j]
                if 'r' not in st:
                    continue
                chk.count('requests')
                if 'exc' in st:
                    chk.violation('escaped-exception|' + op, 'tree #%d: %s %r threw %s' % (i, op, req, st['exc']), dict(rep, request=req, op=op))
                    break
                text = '\n'.join(l[2] for l in core.logs_of(st) if l[1] == 60019)
                got = TOK.findall(text)
                got_file = got[0] if got else None
                if op == '#include' and 'IN|none' in text:
                    got_file = None
                if got_file is not None and got_file in sb.canaries:
                    chk.violation('escape|' + op, 'tree #%d: %s %r returned the content of %s, which lies outside every mapped directory' % (i, op, req, os.path.relpath(got_file, sb.root)), dict(rep, request=req, op=op))
                    break
                if got_file is not None and not any(got_file.startswith(r_ + os.sep) for r_, _ in sb.mappings):
                    chk.violation('escape|' + op, 'tree #%d: %s %r used %s outside the mapped directories' % (i, op, req, got_file), dict(rep, request=req, op=op))
                    break
                if want == 'UNDETERMINED':
                    chk.count('escape_attempts')
                    continue
                if kind == 'chain':
                    if op == 'loadFile':
                        continue
                    chk.count('include_chains')
                    if got != sb.chain_expect:
                        rel = lambda l: [os.path.relpath(x, sb.root) for x in l]
                        chk.violation('include-chain|' + op, 'tree #%d: %s %r pulled in %s, relative includes taken against the including file give %s' % (i, op, req, rel(got), rel(sb.chain_expect)), dict(rep, request=req, op=op))
                        break
                    continue
                if op == '#include' and kind == 'plain' and not req.replace('\\', '/').startswith('/') and not has_root:
                    continue    # a relative include is relative to the including file; only asserted when that file sits at the virtual root
                if isinstance(want, set):
                    chk.count('physical_requests_inside_roots')
                    if got_file is None:
                        chk.count('physical_requests_not_resolved')     # the property promises nothing for these beyond "no other file"
                        continue
                    if got_file in want:
                        continue
                    want_txt = sorted(os.path.relpath(w, sb.root) for w in want)
                    chk.violation('physical|' + op, 'tree #%d: %s %r (a physical path below a mapped root) used %s, re-resolving it virtually gives one of %s' % (
                        i, op, req, os.path.relpath(got_file, sb.root) if got_file else None, want_txt), dict(rep, request=req, op=op))
                    break
                if got_file != want:
                    what = 'not-found' if got_file is None else 'wrong-file' if want is not None else 'found-unmapped'
                    chk.violation('%s|%s|%s' % (what, op, kind), 'tree #%d: %s %r used %s, the reference resolver gives %s (mappings %s)' % (
                        i, op, req, os.path.relpath(got_file, sb.root) if got_file else None, os.path.relpath(want, sb.root) if want else None,
                        [(os.path.relpath(a, sb.root), b) for a, b in sb.mappings]), dict(rep, request=req, op=op))
                    break
            else:
                continue
            break
    shutil.rmtree(base, ignore_errors=True)
    for e in chk.findings.open + chk.findings.fixed:
        if not e.get('probe_files'):
            continue
        pb = os.path.join(core.BUILD_ROOT, 'tmp', 'c16_probe_%d' % os.getpid())
        shutil.rmtree(pb, ignore_errors=True)
        for rel, txt in e['probe_files'].items():
            os.makedirs(os.path.dirname(os.path.join(pb, rel)), exist_ok=True)
            open(os.path.join(pb, rel), 'w').write(txt)
        r = runner.run([{'steps': [{'op': 'vm', 'vm': 0, 'maps': [[os.path.join(pb, a), b] for a, b in e['probe_maps']], 'max_runtime_ms': 500}, {'op': 'run', 'vm': 0, 'src': e['probe'], 'nopp': True}]}])[0]
        bad = isinstance(r, core.Death) or core.diag_values(core.logs_of(r['res'][1])) != e['expect_trace']
        shutil.rmtree(pb, ignore_errors=True)
        chk.count('probes')
        if e['status'] == 'open':
            if bad:
                chk.known(e['id'])
            else:
                chk.notes.append('known finding %s no longer reproduces' % e['id'])
        elif bad:
            chk.violation('regressed:' + e['id'], 'fixed finding %s regressed' % e['id'], {'src': e['probe']})
    return chk.finish(
        rule='sandbox trees with 1-5 physical roots, 1-6 mappings over nested/overlapping virtual prefixes (several roots per prefix), files whose content names their own path, canaries outside all roots; '
             '6-12 requests per tree (virtual absolute, relative, slash/backslash mixes, doubled and trailing separators, missing files, prefix look-alikes, absolute physical paths inside and outside the roots, '
             '.. in every position) through loadFile, preprocessFileLineNumbers, execVM and #include; distinct = (mapping count, root count, prefix set)',
        min_evaluations=50,
        assumptions=['reference resolver: deepest mapped prefix, first root (in registration order) that contains the file; requests containing .. are only judged for escapes',
                     'relative requests are asserted from the virtual root (scripts) and from including files that sit in the directory mapped to /'])


def replay(path):
    with open(path) as f:
        d = json.load(f)
    print(json.dumps(d['replay'], indent=1)[:3000])
    return 1
