"""C09 - every operator is total and memory-safe on all type-correct arguments.
Sanitizers (ASan+UBSan) + crash journal + CPU watchdog + allocation cap are the oracle; the workload
calls every registered signature with boundary values of its registered types."""
import json
import os
import shutil

from .. import core

PROP = 'C09'

CONFIG = '''
class CfgVehicles {
  class All { scope = 0; displayName = "all"; arr[] = {1,2,{3,"x"}}; };
  class Car : All { scope = 2; displayName = "car"; class Turrets { class Main { gun = "g"; }; }; };
  class Man : All { scope = 2; side = 1; };
  class Gone { a = 1; };
  delete Gone;
};
class CfgX { v = 5; t = "txt"; a[] = {1,2,3}; class Sub { w = 1; }; class Sub2 : Sub { w = 2; }; };
'''

PRELUDE = '''
vh_obj = "Car" createVehicle [0,0,0];
vh_unit = "Man" createVehicle [5,5,0];
vh_del = "Car" createVehicle [1,1,1]; deleteVehicle vh_del;
vh_grp = createGroup west;
vh_hm = createHashMapFromArray [[1,2],["a",[3]],[[1],true]];
vh_big = []; vh_big resize 20000; vh_big = vh_big apply {1};
vh_long = "0123456789abcdef"; for "_i" from 1 to 12 do { vh_long = vh_long + vh_long };
vh_arr = [1,2,3];
'''

POOLS = {
    'SCALAR': ['0', '-0', '1', '-1', '0.5', '-0.5', '2', '3', '7', '16777216', '2147483648', '-2147483649', '4294967296', '1e10', '-1e10',
               '1e38', '-1e38', '1e39', '-1e39', '(1e39 - 1e39)', '1e-45', '99999'],
    'STRING': ['""', '"a"', '"abc"', '"A,b;c"', '"%1"', '"%99999999999"', '"%"', '"%0"', '"1"', '"[1,2]"', '"{"', '"\'\'"', 'vh_long',
               '"\\xff\\xfe"', '"missionNamespace"', '"Car"', '"x.sqf"', '"/"', '"../../etc/passwd"', '"one.txt"', '"<t size=\'2\'>x</t><br/>"',
               '"<t"', '"scope"', '"v"', '"1 + 1"', '"// x"', '"/* x"', '"#define A A\\nA"', '"\\"unterminated"'],
    'ARRAY': ['[]', '[0]', '[1,2,3]', '["a"]', '[[]]', '[[1,2],[3]]', '[nil]', '[1,"a",true,[],{}]', '[0,0,0]', '[1e39,-1]', 'vh_big',
              '[objNull]', '["Car",[0,0,0],[],0,"NONE"]', '[vh_obj]', '[-1]', '[1.5]', '[2147483648]', '[[0,0,0],[1,1,1]]', '["a","b"]',
              '[{},{}]', '[[[[[[]]]]]]', '[0,1]', '[1,0]', '["_a","_b"]', '[["_a",0,[0],1]]', '[["_a",0,0,0]]', '[1,2,3,4,5,6,7,8,9]',
              '[[1,2,3],[4,5,6],[7,8,9]]', '[[1,2],[3,4,5]]', '[vh_grp, west]', '[missionNamespace, "x"]', '["x", 1, true]',
              '[0, -1]', '[5, 1e10]', '[1, (1e39-1e39)]', 'vh_arr', '[vh_arr]', '[configFile, "CfgX"]', '["a", {}]', '[1, {true}]'],
    'BOOL': ['true', 'false'],
    'CODE': ['{}', '{nil}', '{true}', '{false}', '{_x}', '{1;2}', '{_this}', '{[] select 5}', '{0}', '{_x > 1}', '{vh_arr deleteAt 0; true}'],
    'OBJECT': ['objNull', 'vh_obj', 'vh_del', 'player', 'vh_unit'],
    'GROUP': ['grpNull', 'vh_grp'],
    'SIDE': ['west', 'east', 'sideUnknown', 'sideLogic', 'civilian'],
    'CONFIG': ['configNull', 'configFile', '(configFile >> "CfgVehicles")', '(configFile >> "CfgVehicles" >> "Car" >> "scope")',
               '(configFile >> "nonexistent")', '(configFile >> "CfgX" >> "a")', '(configFile >> "CfgX" >> "Sub2")', '(configFile >> "CfgVehicles" >> "Gone")'],
    'NAMESPACE': ['missionNamespace', 'uiNamespace', 'parsingNamespace'],
    'TEXT': ['(text "a")', '(parseText "<t>x</t>")', 'lineBreak', '(composeText [])'],
    'SCRIPT': ['scriptNull', '(0 spawn {})', '(0 spawn {sleep 0.01})'],
    'HASHMAP': ['createHashMap', 'vh_hm', '(createHashMapFromArray [[[1,2],3]])'],
    'IF': ['(if true)', '(if false)'],
    'WHILE': ['(while {false})', '(while {true})'],
    'FOR': ['(for "_i")', '(for "_i" from 0)', '(for "_i" from 0 to 2)', '(for "_i" from 0 to 2 step 0)', '(for "_i" from 0 to 1e10 step 1e9)', '(for "_i" from 5 to 0 step -1)'],
    'SWITCH': ['(switch 1)', '(switch "a")'],
    'WITH': ['(with missionNamespace)', '(with uiNamespace)'],
    'EXCEPTION': ['(try {})', '(try {throw 1})'],
    'NaN': ['(1e39 - 1e39)'],
}
def _derived_arrays():
    out = []
    bases = [['0', '0', '0'], ['1', '2'], ['"a"', '"b"'], ['0', '0', '0', '0']]
    bad = ['nil', '"s"', '[]', 'true', '{}', '1e39', 'objNull']
    for b in bases:
        for i in range(len(b)):
            for x in bad:
                c = list(b)
                c[i] = x
                out.append('[' + ','.join(c) + ']')
    return out


DERIVED_ARRAYS = _derived_arrays()
POOLS['ARRAY'] += ['[0,0,nil]', '[0,0,"a"]', '[0,0]', '[1,2,[]]', '[3,3,3,3,3,3,3,3,3,3,3,3,3,3,3,3,3,3,3,3]', '[2,1,2,1,2,1,2,1,2,1,2,1,2,1,2,1,2,1,0,0]']
UNCONSTRUCTIBLE = ('LOCATION', 'TASK', 'DISPLAY', 'CONTROL', 'NetObject')
ANY_POOL = ['0', '-1', '1e39', '""', '"a"', '[]', '[1,2,3]', 'true', '{}', 'objNull', 'vh_obj', 'grpNull', 'west', 'configFile', 'missionNamespace',
            'nil', 'scriptNull', 'createHashMap', '[nil]', 'vh_long']

# operators that are exercised but cannot share a VM with other calls (they end the run / the process state)
SOLO = {'exit__', 'exitcode__', 'vmctrl__', 'halt', 'respawn__', 'callextension', 'measureperformance__'}


def pool_for(t, thorough=False):
    if t == 'ANY':
        return ANY_POOL
    p = POOLS.get(t)
    if thorough and t == 'ARRAY':
        return p + DERIVED_ARRAYS
    return p


def sandbox():
    d = os.path.join(core.BUILD_ROOT, 'tmp', 'c09_sandbox')
    shutil.rmtree(d, ignore_errors=True)
    os.makedirs(os.path.join(d, 'sub'))
    files = {'empty.txt': b'', 'one.txt': b'a', 'two.txt': b'ab', 'three.txt': b'abc', 'bom.txt': b'\xef\xbb\xbf', 'bom2.txt': b'\xef\xbb',
             'x.sqf': b'diag_log 1; 2', 'sub/y.sqf': b'3', 'cfg.cpp': b'class A { v = 1; };', 'bad.sqf': b'1 +* 2 (('}
    for k, v in files.items():
        with open(os.path.join(d, k), 'wb') as f:
            f.write(v)
    return d


def gen_calls(reg, tier, rng):
    """returns list of (signature_key, argclass, source)"""
    calls = []
    quick = tier == 'quick'
    for n in reg['n']:
        calls.append(('n:' + n[0], '', n[0]))
    for u in reg['u']:
        name, rt, desc = u
        pool = pool_for(rt, not quick)
        if pool is None:
            continue
        implemented = desc != ''
        if implemented:
            picks = list(pool)
            if rt == 'ANY':
                picks = list(ANY_POOL)
        else:
            picks = rng.sample(pool, 2 if quick else 5)
        for a in picks:
            calls.append(('u:%s:%s' % (name, rt), a, '%s %s' % (name, a)))
    for b in reg['b']:
        name, lt, rt, prec, desc = b
        lp, rp = pool_for(lt, not quick), pool_for(rt, not quick)
        if lp is None or rp is None:
            continue
        implemented = desc != ''
        pairs = [(l, r) for l in lp for r in rp]
        if not implemented:
            pairs = rng.sample(pairs, min(len(pairs), 2 if quick else 6))
        elif quick and len(rp) > 3 and len(lp) > 3 and len(pairs) > 40:
            # pairwise-ish: every left and every right value occurs at least once, then random fill up to 40
            chosen = set()
            rr = list(rp)
            rng.shuffle(rr)
            for i, l in enumerate(lp):
                chosen.add((l, rr[i % len(rr)]))
            ll = list(lp)
            rng.shuffle(ll)
            for i, r in enumerate(rp):
                chosen.add((ll[i % len(ll)], r))
            rest = [p for p in pairs if p not in chosen]
            rng.shuffle(rest)
            pairs = sorted(chosen) + rest[:max(0, 40 - len(chosen))]
        for l, r in pairs:
            if {l, r} == {'vh_big', 'vh_long'}:
                continue    # 20000 elements x 64 KiB: an output of that size (joinString) is what was asked for, not an allocation "unrelated to its arguments"
            calls.append(('b:%s:%s:%s' % (name, lt, rt), l + '|' + r, '%s %s %s' % (l, name, r)))
    calls += mutating_calls(reg)
    return calls


# code arguments that change the very container the operator is walking (bounded by a counter so that growth ends)
MUTATIONS = {
    'pushBack': 'vh_m pushBack 9',
    'append': 'vh_m append [7,8,9]',
    'grow-resize': 'vh_m resize ((count vh_m) + 3)',
    'set-beyond': 'vh_m set [(count vh_m) + 2, 5]',
    'insert-front': 'vh_m = [0] + vh_m',
    'shrink-one': 'vh_m deleteAt 0',
    'shrink-last': 'vh_m deleteAt ((count vh_m) - 1)',
    'shrink-all': 'vh_m resize 0',
    'shrink-range': 'vh_m deleteRange [0, 2]',
    'grow-then-shrink': 'if (vh_c % 2 == 1) then {vh_m append [1,2,3,4,5,6,7,8]} else {vh_m resize 1}',
    'reverse': 'reverse vh_m',
    'rebind': 'vh_m = []',
}
HM_MUTATIONS = {
    'hm-insert': 'vh_m set [vh_c + 100, 1]',
    'hm-insert-many': 'for "_q" from 0 to 40 do {vh_m set [vh_c * 100 + _q, 1]}',
    'hm-delete-current': 'vh_m deleteAt _x',
    'hm-delete-other': 'vh_m deleteAt 3',
    'hm-rebind': 'vh_m = createHashMap',
}


def mutating_calls(reg):
    """every registered (ARRAY|HASHMAP) x CODE operator, with code that grows / shrinks / rebinds the container being walked"""
    out = []
    for b in reg['b']:
        name, lt, rt, prec, desc = b
        if desc == '':
            continue
        if {lt, rt} == {'ARRAY', 'CODE'}:
            init, muts = 'vh_m = [1,2,3,4]', MUTATIONS
        elif {lt, rt} == {'HASHMAP', 'CODE'}:
            init, muts = 'vh_m = createHashMapFromArray [[1,2],[3,4],[5,6]]', HM_MUTATIONS
        else:
            continue
        for mk, mut in sorted(muts.items()):
            for tail in ('true', '_x'):
                code = '{vh_c = vh_c + 1; if (vh_c < 7) then {%s}; %s}' % (mut, tail)
                expr = ('vh_m %s %s' % (name, code)) if rt == 'CODE' else ('%s %s vh_m' % (code, name))
                out.append(('b:%s:%s:%s' % (name, lt, rt), 'mutating:%s:%s' % (mk, tail), '%s; vh_c = 0; vh_r = %s; vh_s = str vh_m' % (init, expr)))
    return out


def argclass(a):
    return a if len(a) < 24 else a[:24]


def vm_step(sbx):
    return {'op': 'vm', 'vm': 0, 'max_runtime_ms': 40, 'maps': [[sbx, '/']], 'auto_renew': True, 'prelude': PRELUDE, 'prelude_cfg': CONFIG, 'print_work': False}


def mk_case(sbx, srcs):
    steps = [vm_step(sbx), {'op': 'cfg', 'vm': 0, 'src': CONFIG}, {'op': 'run', 'vm': 0, 'src': PRELUDE, 'reset_ts': True}]
    for s in srcs:
        steps.append({'op': 'run', 'vm': 0, 'src': s, 'reset_ts': True})
    return {'steps': steps, 'cpu_ms': 4000 + 500 * len(srcs)}


def judge_single(chk, call, result):
    """call: (sigkey, argclass, src); result of a one-call case"""
    key, ac, src = call
    replay = {'call': src, 'signature': key}
    if isinstance(result, core.Death):
        chk.death_is_violation(result, 'operator call `%s`' % src, replay, sig_prefix=key.split(':')[1] if ':' in key else key)
        return
    st = result['res'][-1]
    if 'exc' in st:
        sig = 'escaped-exception|%s|%s' % (key.split(':')[1], st['exc'].split(':')[0][:60])
        for pat, e in chk.findings.signatures().items():
            import re
            if re.fullmatch(pat, sig):
                chk.known_hits[e['id']] = e['what']
                return
        chk.violation(sig, 'C++ exception escaped the VM in `%s`: %s' % (src, st['exc']), replay)


def explore(chk, runner, sbx, calls, batch):
    """Batches: one VM, many calls. The step journal tells which call a worker died in; that call is
    re-run alone for a clean, replayable attribution, and the rest of the batch continues in a new case."""
    NPRE = 3
    groups = []
    solo = []
    cur = []
    for c in calls:
        nm = c[0].split(':')[1]
        if nm in SOLO:
            solo.append(c)
            continue
        cur.append(c)
        if len(cur) >= batch:
            groups.append(cur)
            cur = []
    if cur:
        groups.append(cur)
    groups += [[c] for c in solo]
    suspects = []   # (call, batch prefix, death-or-exc) to confirm alone
    rounds = 0
    while groups and rounds < 40:
        rounds += 1
        cases = [dict(mk_case(sbx, [c[2] for c in g]), journal_steps=True) for g in groups]
        results = runner.run(cases)
        nxt = []
        for g, r in zip(groups, results):
            if isinstance(r, core.Death):
                k = r.get('step')
                if k is None or k < NPRE:
                    # died outside any call (prelude): charge the whole batch, call by call
                    if len(g) == 1:
                        suspects.append((g[0], [], r))
                    else:
                        nxt += [[c] for c in g]
                    continue
                j = k - NPRE
                for c in g[:j]:
                    chk.evaluations += 1
                    chk.sig(c[0] + '/' + argclass(c[1]))
                    chk.count('calls_ok')
                suspects.append((g[j], g[:j], r))
                if g[j + 1:]:
                    nxt.append(g[j + 1:])
                continue
            for idx, (c, st) in enumerate(zip(g, r['res'][NPRE:])):
                if 'exc' in st:
                    suspects.append((c, g[:idx], st))
                    continue
                chk.evaluations += 1
                chk.sig(c[0] + '/' + argclass(c[1]))
                chk.count('calls_ok')
                if st.get('r') == 'runtime_error':
                    chk.count('calls_sqf_error')
        groups = nxt
    if groups:
        chk.harness_errors.append('batches kept dying after 40 rounds')
    if suspects:
        chk.count('calls_rerun_single', len(suspects))
        cases = [mk_case(sbx, [c[2]]) for c, _, _ in suspects]
        results = runner.run(cases)
        for (c, prefix, first), r in zip(suspects, results):
            chk.evaluations += 1
            chk.sig(c[0] + '/' + argclass(c[1]))
            chk.count('calls_failed')
            bad = isinstance(r, core.Death) or 'exc' in r['res'][-1]
            if bad:
                judge_single(chk, c, r)
            else:
                # fails only after the calls before it in the batch: report with the whole prefix as replay
                chk.count('calls_failed_only_in_sequence')
                if isinstance(first, core.Death):
                    chk.death_is_violation(first, 'operator call `%s` after %d earlier calls on the same VM' % (c[2], len(prefix)),
                                           {'call': c[2], 'signature': c[0], 'prefix': [p[2] for p in prefix]}, sig_prefix=c[0].split(':')[1])
                else:
                    judge_single(chk, c, {'res': [first]})


def probes(chk, runner, sbx):
    """Known findings: replay their recorded input; still failing -> KNOWN-FINDING, else noted. Fixed ones must pass."""
    items = [(e, 'open') for e in chk.findings.open] + [(e, 'fixed') for e in chk.findings.fixed]
    items = [(e, k) for e, k in items if e.get('probe')]
    if not items:
        return
    cases = [mk_case(sbx, [e['probe']]) for e, _ in items]
    results = runner.run(cases)
    for (e, kind), r in zip(items, results):
        bad = isinstance(r, core.Death) or 'exc' in r['res'][-1]
        chk.count('probes')
        if kind == 'open':
            if bad:
                chk.known(e['id'])
            else:
                chk.notes.append('known finding %s no longer reproduces with its probe `%s`' % (e['id'], e['probe']))
        else:
            if bad:
                judge = core.Check(PROP, 'exploration', chk.tier)
                judge.findings.open = []
                judge_single(judge, ('probe:' + e['id'], '', e['probe']), r)
                for v in judge.violations:
                    chk.violation('regressed:' + e['id'], 'fixed finding %s regressed: %s' % (e['id'], v[1]), v[2])


def main(tier):
    chk = core.Check(PROP, 'exploration', tier)
    runner = core.Runner('asan')
    sbx = sandbox()
    runner.cwd = sbx
    rng = core.rng('c09')
    reg = runner.run([{'steps': [{'op': 'vm', 'vm': 0}, {'op': 'registry', 'vm': 0}]}])[0]['res'][1]
    chk.counters['signatures_registered'] = len(reg['n']) + len(reg['u']) + len(reg['b'])
    calls = gen_calls(reg, tier, rng)
    rng.shuffle(calls)
    for c in calls[:4]:
        chk.sample(c[2])
    probes(chk, runner, sbx)
    explore(chk, runner, sbx, calls, 25)
    shutil.rmtree(sbx, ignore_errors=True)
    return chk.finish(
        rule='every registered (name, left type, right type) signature is called with SQF-source boundary values of exactly those types '
             '(implemented signatures: full unary pool, %s binary pairs; ANY-typed dummies: a few); distinct = (signature, argument value) pairs; '
             'non-trivial = the call reached the operator with type-correct arguments' % ('40 pairwise-covering' if tier == 'quick' else 'all'),
        min_evaluations=1000,
        assumptions=['ASan/UBSan see only what the pools reach; LOCATION/TASK/DISPLAY/CONTROL/NetObject values cannot be constructed and are skipped',
                     'runs ended by the 40 ms virtual max-runtime are benign (e.g. waitUntil {false})'])


def replay(path):
    with open(path) as f:
        d = json.load(f)
    runner = core.Runner('asan', workers=1)
    sbx = sandbox()
    runner.cwd = sbx
    r = runner.run([mk_case(sbx, [d['replay']['call']])])[0]
    if isinstance(r, core.Death):
        print('died: %s' % r.get('sig', r['kind']))
        print(r.get('stderr', '')[-3000:])
        return 1
    print(json.dumps(r['res'][-1], indent=1)[:3000])
    return 1 if 'exc' in r['res'][-1] else 0
