"""C04 - runtime errors are never silent, never skipped over, never leak into later code.
Programs with one injected fault at a generated position (and optional except__ handlers) are run on the real VM;
marker traces, handler entries, _exception content, run result, stack-trace location and the error flag at every
action boundary are compared with the reference unwinding semantics. Run histories on one VM look for leaked error state."""
import json
import re

from .. import core
from .. import sqfmodel as m

PROP = 'C04'
KINDS = sorted(m.FAULT_SNIPPETS.keys())
EXIT_BEHAVIOUR_KINDS = {'count_nonbool'}


def avoid_set(chk):
    return {e['avoid'] for e in chk.findings.open if e.get('avoid')} | {e['avoid'] for e in core.Findings('C02').open if e.get('avoid')}


def make_case(i, tier, avoid, salt='c04'):
    rng = core.rng(salt, i)
    kinds = [k for k in KINDS if not (k in EXIT_BEHAVIOUR_KINDS and 'fault-exit-behaviour' in avoid)]
    positions = [p for p in m.GenFault.POSITIONS if not (p == 'in-try' and 'fault-in-try' in avoid)]
    kind = kinds[i % len(kinds)]
    position = positions[(i // len(kinds)) % len(positions)]
    handled = [False, True, 'nested'][(i // (len(kinds) * len(positions))) % 3]
    if kind == 'throw_uncaught':
        handled = False   # a throw inside except__ is taken by the handler as a throw, not as an error: outside the statement
    g = m.GenFault(rng, max_depth=3 if tier == 'quick' else 4, max_stmts=rng.choice([8, 15, 25]), avoid=avoid)
    prog = g.program_with_fault(kind, position, handled)
    return {'avoid_try': 'fault-in-try' in avoid, 'prog': prog, 'gen': g, 'kind': kind, 'position': g.position, 'handled': handled, 'src': m.emit_program(prog)}


def locate(src, snippet):
    k = src.find(snippet)
    if k < 0:
        return None
    line = src.count('\n', 0, k) + 1
    col = k - (src.rfind('\n', 0, k) + 1)
    return line, col, len(snippet)


def split_by_script(entries, script_of_site):
    out = {}
    unknown = []
    for e in entries:
        mm = re.match(r'\[(\d+),', e) or re.match(r'EXC\|(\d+)\|', e)
        if not mm:
            unknown.append(e)
            continue
        site = int(mm.group(1))
        if site not in script_of_site:
            unknown.append(e)
            continue
        out.setdefault(script_of_site[site], []).append(e)
    return out, unknown


def judge(chk, case, st, label):
    src = case['src']
    base = {'src': src, 'fault': case['kind'], 'position': case['position'], 'handled': case['handled']}
    sigtag = '%s/%s/%s' % (case['kind'], case['position'], case['handled'])
    if 'exc' in st:
        chk.violation('escaped-exception|' + st['exc'][:40], 'C++ exception escaped in %s: %s' % (label, st['exc']), base)
        return
    try:
        it, outs = m.run_program(case['prog'], decline_fault_in_try=case.get('avoid_try', False))
    except m.ModelDeclines:
        chk.inconclusive += 1
        chk.count('model_declined')
        return
    except (TypeError, ValueError, IndexError, RecursionError):
        chk.inconclusive += 1
        chk.count('model_type_error')
        return
    logs = core.logs_of(st)
    observed = core.diag_values(logs)
    errs = [l for l in logs if l[0] == 1]
    fatals = [l for l in logs if l[0] == 0]
    failing = [(sid, o[1]) for sid, o in outs if o[0] == 'error']
    fault_raised = bool(failing) or bool(it.handled)
    chk.count('fault_reached' if fault_raised else 'fault_not_reached')
    if it.handled:
        chk.count('handler_entries_expected', len(it.handled))
    expected = {}
    for (site, text) in it.trace:
        expected.setdefault(it.script_of_site[site], []).append(text)
    # sites the model never executed are attributed to no script: seeing them is a marker that ran although it must not
    all_sites = {}
    obs, unknown = split_by_script(observed, it.script_of_site)
    if unknown:
        chk.violation('marker-after-fault|' + sigtag, 'statement %s executed in %s although the reference semantics never reach it' % (unknown[0][:60], label),
                      dict(base, observed=observed, expected=expected))
        return
    fail_sid = failing[0][0] if failing else None
    errtext = errs[0][2].split('\t', 1)[-1] if errs else None
    for sid in sorted(set(list(expected.keys()) + list(obs.keys()))):
        e = expected.get(sid, [])
        o = obs.get(sid, [])
        oo = []
        for x in o:
            mm = re.match(r'(EXC\|\d+\|)(.*)$', x, re.S)
            if mm:
                if errtext is not None and errtext[:60] not in mm.group(2):
                    chk.violation('exception-content|' + case['kind'], '_exception in %s does not contain the error text `%s`: %s' % (label, errtext[:80], mm.group(2)[:200]), dict(base))
                    return
                oo.append(mm.group(1))
            else:
                oo.append(x)
        if failing and sid != fail_sid:
            ok = oo == e[:len(oo)]
        else:
            ok = oo == e
        if not ok:
            k = 0
            while k < len(oo) and k < len(e) and oo[k] == e[k]:
                k += 1
            what = 'skipped-or-extra'
            if k < len(oo) and (k >= len(e)):
                what = 'continued-after-error' if fault_raised else 'extra-events'
            chk.violation('trace|%s|%s' % (what, sigtag), 'script %d of %s: trace differs from the reference at event %d (expected %s, observed %s)' % (
                sid, label, k, e[k] if k < len(e) else '<end>', oo[k] if k < len(oo) else '<end>'), dict(base, expected=expected, observed=obs))
            return
    r = st.get('r')
    if failing:
        if r != 'runtime_error':
            chk.violation('unreported-error|' + sigtag, 'uncaught runtime error in %s but the run was reported as %s' % (label, r), dict(base, logs=[l[2][:200] for l in logs[-6:]]))
            return
        if not errs:
            chk.violation('no-error-diagnostic|' + sigtag, 'run of %s failed without an error-level diagnostic' % label, base)
            return
        loc = locate(src, m._emit_fault(case['gen'].fault))
        st_msgs = [l for l in fatals if l[1] == 60001]
        if not st_msgs:
            chk.violation('no-stacktrace|' + sigtag, 'failed run of %s has no stack trace' % label, base)
            return
        if loc and len(st_msgs[0]) > 4:
            line, col = st_msgs[0][3], st_msgs[0][4]
            # the tokenizer does not count the second quote of a doubled quote inside a string (column accuracy is C14's subject)
            line_text = src.split('\n')[loc[0] - 1]
            slack = line_text[:loc[1]].count('""')
            if line != loc[0] or not (loc[1] - slack <= col < loc[1] + loc[2]):
                chk.violation('stacktrace-blames-other-statement|' + sigtag, 'stack trace of %s names L%d|C%d, the failing statement is at L%d|C%d..%d' % (
                    label, line, col, loc[0], loc[1], loc[1] + loc[2]), dict(base, stacktrace=st_msgs[0][2][:400]))
                return
    else:
        if r not in ('empty', 'ok'):
            chk.violation('reported-failed-without-error|' + sigtag, 'no uncaught error in %s but the run was reported as %s' % (label, r),
                          dict(base, logs=[l[2][:200] for l in logs[-6:]]))
            return
        if fatals:
            chk.violation('fatal-without-error|' + sigtag, 'fatal diagnostic in a run of %s that must succeed: %s' % (label, fatals[0][2][:200]), base)
            return
        if not fault_raised and errs:
            chk.violation('error-without-fault|' + sigtag, 'error diagnostic in %s although the fault is never executed: %s' % (label, errs[0][2][:200]), base)
            return
        if fault_raised and not errs:
            chk.violation('silent-fault|' + sigtag, 'the fault of %s executed without any error-level diagnostic' % label, base)
            return
    if st['st'].get('err'):
        chk.violation('flag-left-set|' + sigtag, 'error flag still set after the run of %s returned' % label, base)
        return
    mon = st.get('mon') or {}
    chk.count('boundary_checks', mon.get('boundary_checks', 0))
    if mon.get('boundary_flag_set', 0):
        chk.violation('flag-at-boundary|' + sigtag, 'error flag set when control returned to the embedder in %s' % label, base)


def _outside_model(case):
    """a program the reference model declines (e.g. its fault sits in a try/catch region, a recorded defect) is not judged, whatever the VM did"""
    try:
        m.run_program(case['prog'], decline_fault_in_try=case.get('avoid_try', False))
    except m.ModelDeclines:
        return True
    except Exception:
        return True
    return False


def run_singles(chk, runner, cases):
    items = [[{'op': 'run', 'vm': 0, 'src': c['src'], 'path': '/vh/prog.sqf', 'reset_ts': True, 'mon': True}] for c in cases]
    # every program in its own fresh VM: a leaked error state would otherwise blur which program is at fault (histories test leakage)
    results = core.run_items(runner, [], [[{'op': 'vm', 'vm': 0, 'max_runtime_ms': 3000}] + it for it in items], batch=10, base_cpu_ms=3000,
                             item_cpu_ms=lambda it: 3000, counters=chk.counters)
    for i, (c, r) in enumerate(zip(cases, results)):
        chk.evaluations += 1
        chk.sig('%s|%s|%s|%s' % (c['kind'], c['position'], c['handled'], len(c['prog'])))
        chk.counters.setdefault('pairs', set()).add((c['kind'], c['position']))
        if isinstance(r, core.Death):
            if _outside_model(c):
                chk.inconclusive += 1
                chk.count('model_declined')
                continue
            chk.death_is_violation(r, 'program #%d (%s at %s)' % (i, c['kind'], c['position']), {'src': c['src']})
            continue
        judge(chk, c, r[-1], 'program #%d (%s at %s, handled=%s)' % (i, c['kind'], c['position'], c['handled']))


def run_histories(chk, runner, nh, tier, avoid):
    """2-6 runs on one VM: error-free, failing and handled programs in random order; each judged on its own"""
    hist = []
    items = []
    for h in range(nh):
        rng = core.rng('c04h', h)
        n = rng.randint(2, 6)
        cs = []
        for j in range(n):
            c = make_case(rng.randint(0, 10 ** 6), tier, avoid, salt='c04h%d' % h)
            cs.append(c)
        hist.append(cs)
        items.append([{'op': 'run', 'vm': 0, 'src': c['src'], 'path': '/vh/prog.sqf', 'reset_ts': True, 'mon': True} for c in cs])
    prefix = []
    results = core.run_items(runner, prefix, [[{'op': 'vm', 'vm': 0, 'max_runtime_ms': 3000}] + it for it in items], batch=4, base_cpu_ms=3000,
                             item_cpu_ms=lambda it: 3000 * len(it), counters=chk.counters)
    for h, (cs, r) in enumerate(zip(hist, results)):
        chk.evaluations += 1
        chk.sig('history|' + '|'.join('%s/%s/%s' % (c['kind'], c['position'], c['handled']) for c in cs))
        if isinstance(r, core.Death):
            if any(_outside_model(c) for c in cs):
                chk.inconclusive += 1
                continue
            chk.death_is_violation(r, 'history #%d' % h, {'srcs': [c['src'] for c in cs]})
            continue
        for j, (c, st) in enumerate(zip(cs, r[1:])):
            n0 = len(chk.violations)
            judge(chk, c, st, 'run %d of history #%d (%s at %s, handled=%s)' % (j, h, c['kind'], c['position'], c['handled']))
            if len(chk.violations) > n0:
                k, d, rep = chk.violations[-1]
                chk.violations[-1] = ('history:' + k, d, dict(rep, history=[x['src'] for x in cs[:j + 1]]))
                break
        chk.count('history_runs', len(cs))


def probe_steps(e):
    return [{'op': 'vm', 'vm': 0, 'max_runtime_ms': e.get('max_runtime_ms', 200)}] + [{'op': 'run', 'vm': 0, 'src': s, 'mon': True} for s in e['probe']]


def probes(chk, runner):
    for e in chk.findings.open + chk.findings.fixed:
        if not e.get('probe'):
            continue
        r = runner.run([{'steps': probe_steps(e)}])[0]
        chk.count('probes')
        bad = isinstance(r, core.Death)
        if not bad:
            got = []
            for st in r['res'][1:]:
                got.append({'r': st.get('r'), 'trace': core.diag_values(core.logs_of(st)), 'err': st['st'].get('err')})
            bad = got != e['expect']
        if e['status'] == 'open':
            if bad:
                chk.known(e['id'])
            else:
                chk.notes.append('known finding %s no longer reproduces' % e['id'])
        elif bad:
            chk.violation('regressed:' + e['id'], 'fixed finding %s regressed: observed %s' % (e['id'], json.dumps(got)[:500]), {'srcs': e['probe']})


def run_cli(chk, runner, cases, tier):
    """the real command line front end: a run that ended with an uncaught runtime error must be reported to the caller (exit status, stack trace), a clean one must not"""
    import os
    import shutil
    import subprocess
    from concurrent.futures import ThreadPoolExecutor
    core.build('asan', 'vcli')
    exe = os.path.join(core.BUILD_ROOT, 'asan', 'vcli')
    env = dict(os.environ, ASAN_OPTIONS=core.ASAN_OPTIONS, UBSAN_OPTIONS=core.UBSAN_OPTIONS)
    base = os.path.join(core.BUILD_ROOT, 'tmp', 'c04_cli_%d' % os.getpid())
    shutil.rmtree(base, ignore_errors=True)
    os.makedirs(base)
    sub = cases[:60 if tier == 'quick' else 800]
    ref = runner.run([{'steps': [{'op': 'vm', 'vm': 0, 'max_runtime_ms': 3000}, {'op': 'run', 'vm': 0, 'src': c['src'], 'path': '/vh/prog.sqf'}]} for c in sub])

    def one(i):
        f = os.path.join(base, 'p%d.sqf' % i)
        with open(f, 'w') as fh:
            fh.write(sub[i]['src'])
        try:
            return subprocess.run([exe, '-a', '--suppress-welcome', '--no-load-executable-dir', '--no-work-print', '--no-execute-print', '--input-sqf', f, '-m', '3000'],
                                  cwd=base, env=env, stdout=subprocess.PIPE, stderr=subprocess.PIPE, timeout=120)
        except subprocess.TimeoutExpired:
            return None
    with ThreadPoolExecutor(core.NWORKERS) as ex:
        outs = list(ex.map(one, range(len(sub))))
    for c, r, p in zip(sub, ref, outs):
        if isinstance(r, core.Death) or p is None:
            chk.inconclusive += 1
            continue
        chk.evaluations += 1
        res = r['res'][1].get('r')
        out = p.stdout.decode('latin-1')
        rep = {'src': c['src'], 'front_end': 'vcli', 'execute_result': res, 'exit_status': p.returncode, 'stdout_tail': out[-1500:]}
        if p.returncode < 0:
            chk.violation('cli-died', 'the CLI died (signal %d) on %s at %s' % (-p.returncode, c['kind'], c['position']), dict(rep, stderr_tail=p.stderr.decode('latin-1')[-2000:]))
            continue
        if res == 'runtime_error':
            chk.count('cli_failed_runs')
            if p.returncode == 0:
                chk.violation('cli-exit-0-after-error', 'a run that ended with an uncaught runtime error (%s at %s) makes the CLI exit with status 0' % (c['kind'], c['position']), rep)
            elif 'Stacktrace' not in out:
                chk.violation('cli-no-stacktrace', 'the CLI reported the failed run (%s at %s) without a stack trace' % (c['kind'], c['position']), rep)
        elif res in ('empty', 'ok'):
            chk.count('cli_clean_runs')
            if p.returncode != 0:
                chk.violation('cli-exit-nonzero-clean', 'a run without an uncaught error (%s at %s, result %s) makes the CLI exit with status %d' % (c['kind'], c['position'], res, p.returncode), rep)
    shutil.rmtree(base, ignore_errors=True)


def main(tier):
    chk = core.Check(PROP, 'exploration', tier)
    runner = core.Runner('asan')
    avoid = avoid_set(chk)
    n = 2500 if tier == 'quick' else 50000
    cases = [make_case(i, tier, avoid) for i in range(n)]
    for c in cases[:3]:
        chk.sample({'fault': c['kind'], 'position': c['position'], 'handled': c['handled'], 'src': c['src'][:1200]})
    probes(chk, runner)
    run_singles(chk, runner, cases)
    run_histories(chk, runner, 400 if tier == 'quick' else 10000, tier, avoid)
    run_cli(chk, runner, cases, tier)
    pairs = chk.counters.pop('pairs', set())
    chk.counters['fault_kind_x_position_pairs'] = len(pairs)
    return chk.finish(
        rule='C02-style programs with one injected erroring operation (%d kinds) at a chosen position (straight line, nested block, loop condition, iteration code, '
             'last statement, spawned script, exitWith block, try block) with 0/1/2 enclosing except__ handlers, each in a fresh VM; plus histories of 2-6 such runs on one VM; '
             'distinct = (fault kind, position, handlers, size)' % len(KINDS),
        min_evaluations=200,
        assumptions=['reference unwinding semantics in vlib/sqfmodel.py: control passes once to the nearest dynamically enclosing except__ handler, execution continues after it; '
                     'without a handler the run ends with runtime_error and a stack trace at the failing statement',
                     'error flag observed through the action_leave hook and the public __runtime_error() after every run'])


def replay(path):
    with open(path) as f:
        d = json.load(f)
    rep = d['replay']
    srcs = rep.get('history') or rep.get('srcs') or [rep['src']]
    runner = core.Runner('asan', workers=1)
    r = runner.run([{'steps': [{'op': 'vm', 'vm': 0, 'max_runtime_ms': 3000}] + [{'op': 'run', 'vm': 0, 'src': s, 'mon': True} for s in srcs]}])[0]
    if isinstance(r, core.Death):
        print('worker died')
        return 1
    for st in r['res'][1:]:
        print('result=%s err_flag=%s' % (st.get('r'), st['st'].get('err')))
        for l in core.logs_of(st):
            print('  [%d] %s' % (l[0], l[2][:200]))
    print('expected (reference): %s' % json.dumps(rep.get('expected'))[:1000])
    return 1
