"""C05 - the operand stack is partitioned per scope; a scope yields exactly one value.
Online monitor on the instruction/frame hooks (invariants I1-I5 in harness/vm.cpp) + black-box oracle: the value of
every enclosing expression equals the reference interpreter's."""
import json

from .. import core
from .. import sqfmodel as m
from . import c02

PROP = 'C05'

LOOP_TEMPLATES = [
    ('while', '_i = 0; while { _i < %d } do { _i = _i + 1; 1; [2, 3]; "x" }; diag_log str [1, _i]'),
    ('for', '_c = 0; for "_j" from 1 to %d do { _c = _c + 1; _j; [_j] }; diag_log str [1, _c]'),
    ('foreach', '_c = 0; _a = []; _a resize %d; { _c = _c + 1; 5; [6] } forEach _a; diag_log str [1, _c]'),
    ('count', '_a = []; _a resize %d; _c = { 7; [8]; true } count _a; diag_log str [1, _c]'),
    ('apply', '_a = []; _a resize %d; _c = count (_a apply { 7; [8]; 9 }); diag_log str [1, _c]'),
    ('foreach-1stmt', '_a = []; _a resize %d; { [_forEachIndex] } forEach _a; diag_log str [1, count _a]'),
    ('for-1stmt', 'for "_j" from 1 to %d do { [_j, 1] }; diag_log str [1, %d]'),
    ('while-1stmt', '_i = 0; while { _i = _i + 1; _i <= %d } do { [_i] }; diag_log str [1, _i - 1]'),
    ('count-1stmt', '_a = []; _a resize %d; _c = { true } count _a; diag_log str [1, _c]'),
    ('select-1stmt', '_a = []; _a resize %d; _c = count (_a select { true }); diag_log str [1, _c]'),
    ('apply-1stmt', '_a = []; _a resize %d; _c = count (_a apply { [1] }); diag_log str [1, _c]'),
    ('findif-1stmt', '_a = []; _a resize %d; _c = _a findIf { false }; diag_log str [1, _c + 1 + %d]'),
    ('call-in-loop', '_c = 0; for "_j" from 1 to %d do { _c = _c + (call { 1; 2; 1 }) }; diag_log str [1, _c]'),
    ('exitwith-in-loop', '_c = 0; for "_j" from 1 to %d do { _c = _c + ([0, call { if (true) exitWith { 1 }; 5 }, 0] select 1) }; diag_log str [1, _c]'),
    ('try-in-loop', '_c = 0; for "_j" from 1 to %d do { _c = _c + ([0, try { throw 1 } catch { _exception }] select 1) }; diag_log str [1, _c]'),
]


def mon_viol(step):
    mon = step.get('mon') or {}
    return mon.get('stack_viol', []), mon


def judge(chk, prog, src, r, label, feats):
    n0 = len(chk.violations)
    c02.compare(chk, prog, src, r, label, feats)
    if isinstance(r, core.Death):
        return
    st = r[-1]
    viol, mon = mon_viol(st)
    chk.count('hooked_instructions', mon.get('instr', 0))
    chk.count('stack_checks', mon.get('stack_checks', 0))
    chk.count('frames_done', mon.get('frames_done', 0))
    chk.count('statement_separators', mon.get('endstatements', 0))
    for v in viol:
        kind = v.split(' ')[0]
        key = 'monitor-' + kind + '|' + (v.split(' by ')[-1].split(' @')[0] if ' by ' in v else v.split(' after ')[-1].split(' @')[0] if ' after ' in v else '')
        if kind == 'I5' and 'breakout' in v and chk.known('c05-breakout-leaks-operands'):
            continue
        chk.violation(key, 'operand-stack monitor: %s in %s' % (v, label), {'src': src, 'monitor': viol})
    if len(chk.violations) == n0 and mon.get('max_values', 0) > 200:
        chk.violation('monitor-depth', 'operand stack reached %d values in %s' % (mon.get('max_values'), label), {'src': src})


def loops(chk, runner, tier):
    n = 3000 if tier == 'quick' else 10000
    cases = []
    for name, tpl in LOOP_TEMPLATES:
        cases.append({'steps': [{'op': 'vm', 'vm': 0, 'mon': {'stack': True}, 'loop_max': 0}, {'op': 'run', 'vm': 0, 'src': (tpl.replace('%d', str(n))), 'mon': True}], 'cpu_ms': 120000})
    res = runner.run(cases)
    for (name, tpl), r in zip(LOOP_TEMPLATES, res):
        chk.evaluations += 1
        chk.sig('loop:' + name)
        src = (tpl.replace('%d', str(n)))
        if isinstance(r, core.Death):
            chk.death_is_violation(r, 'long loop %s' % name, {'src': src})
            continue
        st = r['res'][-1]
        viol, mon = mon_viol(st)
        chk.count('hooked_instructions', mon.get('instr', 0))
        trace = core.diag_values(core.logs_of(st))
        if trace != ['[1,%d]' % n]:
            chk.violation('loop-trace|' + name, 'loop %s over %d iterations reported %s' % (name, n, trace[:3]), {'src': src, 'errors': [l[2] for l in core.error_logs(core.logs_of(st))[:3]]})
        elif viol:
            chk.violation('loop-monitor|' + name, 'operand-stack monitor in long loop %s: %s' % (name, viol[0]), {'src': src, 'monitor': viol})
        elif mon.get('max_values', 0) > 40:
            chk.violation('loop-accumulates|' + name, 'operand stack grew to %d values during %d iterations of %s' % (mon.get('max_values'), n, name), {'src': src})
        chk.counters.setdefault('loop_max_values', {})[name] = mon.get('max_values')


def scheduled(chk, runner, tier, avoid):
    """three hostile programs as concurrently scheduled scripts (main + two spawned) under short slice budgets: the partition
    monitor keeps one shadow per script, so a script's operands must be exactly as it left them when it gets its next slice"""
    n = 500 if tier == 'quick' else 12000
    items, meta = [], []
    for i in range(n):
        rng = core.rng('c05s', i)
        progs = []
        for k in range(3):
            g = m.GenHostile(rng, max_depth=3, max_stmts=rng.choice([6, 10, 16]), avoid=avoid)
            progs.append(g.program())
        tags = ['A', 'B', 'C']
        srcs = [m.emit_program(p).replace('diag_log str [', 'diag_log str ["%s", ' % t) for p, t in zip(progs, tags)]
        src = '[] spawn {\n%s\n};\n[] spawn {\n%s\n};\n%s\n' % (srcs[1], srcs[2], srcs[0])
        budget = rng.choice([1, 2, 3, 5, 8, 13, 40, 150])
        items.append([{'op': 'vm', 'vm': 0, 'max_runtime_ms': 4000, 'mon': {'stack': True, 'budget': budget}},
                      {'op': 'run', 'vm': 0, 'src': src, 'path': '/vh/prog.sqf', 'reset_ts': True, 'mon': True}])
        meta.append((progs, tags, src, budget))
    results = core.run_items(runner, [], items, batch=10, base_cpu_ms=5000, item_cpu_ms=lambda it: 3000, counters=chk.counters)
    for i, ((progs, tags, src, budget), r) in enumerate(zip(meta, results)):
        chk.evaluations += 1
        chk.count('scheduled_programs')
        chk.sig('sched|%d|%d' % (budget, len(src) // 200))
        label = 'scheduled program #%d (slice budget %d)' % (i, budget)
        if isinstance(r, core.Death):
            chk.death_is_violation(r, label, {'src': src})
            continue
        st = r[-1]
        if 'exc' in st:
            chk.violation('escaped-exception', 'C++ exception escaped in %s: %s' % (label, st['exc']), {'src': src})
            continue
        viol, mon = mon_viol(st)
        chk.count('hooked_instructions', mon.get('instr', 0))
        chk.count('stack_checks', mon.get('stack_checks', 0))
        chk.count('slices', mon.get('slices', 0))
        for v in viol:
            kind = v.split(' ')[0]
            chk.violation('sched-monitor-' + kind, 'operand-stack monitor: %s in %s' % (v, label), {'src': src, 'monitor': viol, 'budget': budget})
        trace, errs = c02.observe(st)
        declined = False
        for p, t in zip(progs, tags):
            it = m.Interp()
            try:
                it.run_script(p)
            except (m.ModelDeclines, RecursionError, TypeError, ValueError, IndexError):
                declined = True
                break
            want = ['["%s",%s' % (t, e[1][1:]) for e in it.trace]
            got = [x for x in trace if x.startswith('["%s",' % t)]
            if got != want and not errs:
                k = next((j for j in range(min(len(got), len(want))) if got[j] != want[j]), min(len(got), len(want)))
                chk.violation('sched-trace|' + t, 'script %s of %s: trace differs from its solo reference at event %d: expected %s, observed %s' % (
                    t, label, k, want[k] if k < len(want) else '<end>', got[k] if k < len(got) else '<end>'), {'src': src, 'budget': budget, 'script': t})
                break
        if declined:
            chk.inconclusive += 1
        elif errs:
            chk.violation('sched-unexpected-error', 'error-free scripts raised %s in %s' % (errs[0][2][:200], label), {'src': src, 'budget': budget})


def short_operands(chk, runner, tier):
    """a nested block comes up short of operands (an element or operand expression over an undefined variable yields no value) while the
    enclosing expression has operands pending: the shortage must be reported as an error, and must never be made up from the operands of
    the enclosing scopes. With the error handled inside (except__) the enclosing literal still holds exactly what it pushed."""
    n = 240 if tier == 'quick' else 6000
    items, meta = [], []
    for i in range(n):
        rng = core.rng('c05short', i)
        u = '_undef%d' % rng.randint(0, 9)
        none = rng.choice(['count %s' % u, '%s + 1' % u, '%s select 0' % u, 'str %s' % u, '-%s' % u])
        k = rng.randint(0, 3)
        elems = [str(rng.randint(1, 9)) for _ in range(k)]
        elems.insert(rng.randint(0, k), none)
        short = rng.choice(['[%s]' % ', '.join(elems), '%d + (%s)' % (rng.randint(1, 9), none), '(%s) max %d' % (none, rng.randint(1, 9)), '[%s, [%s]]' % (rng.randint(1, 9), ', '.join(elems))])
        pre = '; '.join(['_a%d = %d' % (j, j) for j in range(rng.randint(1, 3))])
        body = '%s; %s' % (pre, short)
        handled = rng.random() < 0.5
        if handled:
            nested = '{ %s } except__ { "caught" }' % body
        else:
            nested = rng.choice(['call { %s }', 'if true then { %s }', '[] call { %s }', 'call { call { %s } }', '({ %s } forEach [1])']) % body
        pend = [str(rng.randint(10, 99)) for _ in range(rng.randint(1, 4))]
        form = rng.choice(['array', 'array', 'nested-array', 'arith'])
        if form == 'array':
            outer = '[%s, %s, %d]' % (', '.join(pend), nested, 7)
            want = '[%s,"caught",7]' % ','.join(pend)
        elif form == 'nested-array':
            outer = '[%s, [%s, %s], %d]' % (pend[0], ', '.join(pend), nested, 7)
            want = '[%s,[%s,"caught"],7]' % (pend[0], ','.join(pend))
        else:
            outer = '[%s, %s + count [%s], %d]' % (pend[0], pend[-1], nested, 7)
            want = '[%s,%d,7]' % (pend[0], int(pend[-1]) + 1)
        src = '_r = %s; diag_log str ["R", _r]' % outer
        items.append([{'op': 'run', 'vm': 0, 'src': src, 'path': '/vh/short.sqf', 'reset_ts': True, 'mon': True}])
        meta.append((src, handled, want, form))
    prefix = [{'op': 'vm', 'vm': 0, 'max_runtime_ms': 2000, 'auto_renew': True, 'mon': {'stack': True}}]
    results = core.run_items(runner, prefix, items, batch=20, base_cpu_ms=5000, item_cpu_ms=lambda it: 1000)
    for (src, handled, want, form), r in zip(meta, results):
        chk.evaluations += 1
        chk.count('short_operand_programs')
        chk.sig('short|%s|%s|%d' % (form, handled, len(src) // 20))
        if isinstance(r, core.Death):
            chk.death_is_violation(r, 'short-operand program `%s`' % src, {'src': src})
            continue
        st = r[-1]
        viol, mon = mon_viol(st)
        errs = core.error_logs(core.logs_of(st))
        trace = core.diag_values(core.logs_of(st))
        if viol:
            chk.violation('short-monitor-' + viol[0].split(' ')[0], 'operand-stack monitor: %s in `%s`' % (viol[0], src), {'src': src, 'monitor': viol})
        elif not errs:
            chk.violation('short-operands-silent|' + form, 'a block that came up short of operands raised no error in `%s`; trace %s' % (src, trace), {'src': src})
        elif handled and trace != ['["R",%s]' % want]:
            chk.violation('short-operands-enclosing|' + form, 'after a handled shortage inside a nested block the enclosing expression gave %s, its operands were %s, in `%s`' % (trace, want, src), {'src': src})
        elif not handled and trace:
            chk.violation('short-operands-continued|' + form, 'the script went on after an unhandled operand shortage: %s in `%s`' % (trace, src), {'src': src})
        else:
            chk.count('short_operand_errors_reported')


def probes(chk, runner):
    for e in chk.findings.open + chk.findings.fixed:
        src = e.get('probe')
        if not src:
            continue
        r = runner.run([{'steps': [{'op': 'vm', 'vm': 0, 'mon': {'stack': True}, 'max_runtime_ms': 200}, {'op': 'run', 'vm': 0, 'src': src, 'mon': True}]}])[0]
        chk.count('probes')
        bad = isinstance(r, core.Death)
        if not bad:
            st = r['res'][-1]
            viol, _ = mon_viol(st)
            trace = core.diag_values(core.logs_of(st))
            bad = bool(viol) or bool(core.error_logs(core.logs_of(st))) or trace != e.get('expect_trace', trace)
        if e['status'] == 'open':
            if bad:
                chk.known(e['id'])
            else:
                chk.notes.append('known finding %s no longer reproduces' % e['id'])
        elif bad:
            chk.violation('regressed:' + e['id'], 'fixed finding %s regressed' % e['id'], {'src': src})


def main(tier):
    chk = core.Check(PROP, 'exploration', tier)
    runner = core.Runner('asan')
    avoid = c02.avoid_set(core.Check('C02', 'exploration', tier)) | {e['avoid'] for e in chk.findings.open if e.get('avoid')}
    n = 3000 if tier == 'quick' else 80000
    progs = []
    for i in range(n):
        rng = core.rng('c05', i)
        g = m.GenHostile(rng, max_depth=4 if tier == 'quick' else 6, max_stmts=rng.choice([10, 20, 40]), avoid=avoid)
        progs.append((g.program(), g))
    items = [[{'op': 'run', 'vm': 0, 'src': m.emit_program(p), 'path': '/vh/prog.sqf', 'reset_ts': True, 'mon': True}] for p, g in progs]
    probes(chk, runner)
    loops(chk, runner, tier)
    scheduled(chk, runner, tier, avoid)
    short_operands(chk, runner, tier)
    prefix = [{'op': 'vm', 'vm': 0, 'max_runtime_ms': 4000, 'auto_renew': True, 'mon': {'stack': True}}]
    results = core.run_items(runner, prefix, items, batch=20, base_cpu_ms=5000, item_cpu_ms=lambda it: 3000, counters=chk.counters)
    feats = set()
    for i, ((p, g), r) in enumerate(zip(progs, results)):
        chk.evaluations += 1
        chk.sig('|'.join(sorted(g.features)) + '#' + str(len(p)))
        feats |= g.features
        src = m.emit_program(p)
        if i < 3:
            chk.sample(src[:1500])
        judge(chk, p, src, r, 'program #%d' % i, g.features)
    chk.counters['constructs_seen'] = sorted(feats)
    return chk.finish(
        rule='C02-style programs in which blocks that exit early (exitWith, breakOut, throw/catch), leave extra values or iterate are embedded in half-built '
             'array and arithmetic expressions, run with the operand-stack monitor on every instruction; plus 10000-iteration loops of every kind; '
             'distinct = distinct (construct set, size) signatures',
        min_evaluations=200,
        assumptions=['monitor invariants I1-I5 (harness/vm.cpp): frame bases monotone; operands below the executing frame untouched; a finished block leaves base(+1); '
                     'nothing left after a statement separator; an instruction that pops frames hands over at most one value',
                     'the monitor state is per VM and only touched by the executing thread'])


def replay(path):
    with open(path) as f:
        d = json.load(f)
    src = d['replay']['src']
    runner = core.Runner('asan', workers=1)
    r = runner.run([{'steps': [{'op': 'vm', 'vm': 0, 'mon': {'stack': True}, 'max_runtime_ms': 2000}, {'op': 'run', 'vm': 0, 'src': src, 'mon': True}]}])[0]
    if isinstance(r, core.Death):
        print('worker died')
        return 1
    st = r['res'][-1]
    viol, mon = mon_viol(st)
    print('monitor: %s' % viol)
    print('trace: %s' % core.diag_values(core.logs_of(st)))
    return 1 if viol else 0
