"""C17 - PBO archives are read faithfully; damaged ones are rejected safely.
An independent packer (below) writes archives over random file sets; the harness opens them with the real reader the two ways
the code base does (CLI: pbofile(path) + add_pbo_mapping(pbo); library: add_pbo_mapping(path)) and reads every entry through the
VFS. Monitors: sanitizers, largest single allocation while the step runs (sanitizer malloc hook), file-system snapshot of the
sandbox before/after, byte comparison of everything that is exposed."""
import hashlib
import json
import os
import shutil
import struct

from .. import core

PROP = 'C17'


def pack(props, entries, trailer=True, methods=None):
    """props: list of (key, value) byte strings; entries: list of (name bytes, data bytes)"""
    out = bytearray()
    out += b'\0' + b'sreV' + b'\0' * 16
    for k, v in props:
        out += k + b'\0' + v + b'\0'
    out += b'\0'
    fields = []     # (offset of the 20-byte record, index)
    for i, (name, data) in enumerate(entries):
        out += name + b'\0'
        fields.append(len(out))
        out += struct.pack('<IIIII', 0, 0, 0, 0x5F000000 + i, len(data))
    out += b'\0' + b'\0' * 20
    header_end = len(out)
    for name, data in entries:
        out += data
    data_end = len(out)
    if trailer:
        out += b'\0' + hashlib.sha1(bytes(out)).digest()
    return bytes(out), {'fields': fields, 'header_end': header_end, 'data_end': data_end}


def parse(blob):
    """reference reader: returns (props, [(name, data)], leftover byte count) or None when the header zone is malformed or the sizes do not fit"""
    def cstr(i):
        j = blob.find(b'\0', i)
        if j < 0:
            return None, None
        return blob[i:j], j + 1
    name, i = cstr(0)
    if name is None or len(blob) < i + 20:
        return None
    first_is_version = name == b'' and blob[i:i + 4] == b'sreV'
    props = []
    if first_is_version:
        i += 20
        while True:
            k, i2 = cstr(i)
            if k is None:
                return None
            i = i2
            if k == b'':
                break
            v, i = cstr(i)
            if v is None:
                return None
            props.append((k, v))
    else:
        i = 0
    heads = []
    while True:
        nm, i2 = cstr(i)
        if nm is None or len(blob) < i2 + 20:
            return None
        rec = struct.unpack('<4sIIII', blob[i2:i2 + 20])
        i = i2 + 20
        if nm == b'':
            break
        heads.append((nm, rec[4]))
    entries = []
    off = i
    for nm, size in heads:
        if off + size > len(blob):
            return None
        entries.append((nm, blob[off:off + size]))
        off += size
    return props, entries, len(blob) - off


NAMES = [b'a.sqf', b'config.cpp', b'dir\\b.sqf', b'dir\\sub\\c.bin', b'dir\\d.sqf', b'Mixed Case.txt', b'functions\\fn_init.sqf', b'z', b'data\\model.p3d', b'x.y.z', b'\xe4\xf6.sqf', b'stringtable.xml']
PREFIXES = [b'pre', b'x\\addons\\main', b'a\\b', b'lib', b'z\\ace\\addons\\common', b'P']


def gen_archive(rng):
    props = []
    if rng.random() < 0.92:
        props.append((b'prefix', rng.choice(PREFIXES)))
    for k in rng.sample([b'version', b'author', b'hemtt', b'product', b'x'], rng.randint(0, 3)):
        props.append((k, bytes(rng.choice(b'abcXYZ 019\\/._-#') for _ in range(rng.randint(0, 12)))))
    rng.shuffle(props)
    entries = []
    names = rng.sample(NAMES, rng.randint(0, 6))
    for _ in range(rng.choice([0, 0, 1, 2])):
        # arbitrary names: any byte but NUL; path separators at random places
        nm = bytes(rng.choice(b'abzAZ09 ._-#$?!()[]{}+=,;@~%&\'\xe9\xff') for _ in range(rng.randint(1, 14)))
        if rng.random() < 0.4:
            nm = rng.choice([b'd1\\', b'a b\\c\\', b'?\\']) + nm
        if nm.strip(b'?') and nm not in names and not nm.endswith(b'.') and b'..' not in nm and nm.strip() == nm:
            names.append(nm)
    if names and rng.random() < 0.3:
        # two entries whose names differ in letter case only are two entries
        base = rng.choice(names)
        for variant in (base.swapcase(), base.upper(), base[:1].swapcase() + base[1:]):
            if variant != base and variant not in names:
                names.insert(rng.randint(0, len(names)), variant)
                break
    for name in names:
        kind = rng.random()
        if kind < 0.15:
            data = b''
        elif kind < 0.3:
            data = bytes([rng.randrange(256)])
        elif kind < 0.7:
            data = ('// %s\nvalue = %d;\n' % (name.decode('latin-1'), rng.randrange(10**6))).encode('latin-1') * rng.randint(1, 4)
        else:
            data = bytes(rng.randrange(256) for _ in range(rng.choice([2, 3, 17, 255, 256, 257, 300, 2049, 5000])))
        entries.append((name, data))
    return props, entries, rng.random() < 0.7


def requests_for(prefix, name, rng=None):
    """the ways a script names the entry: \\prefix\\name, prefix\\name, and the same with forward slashes"""
    p = prefix.decode('latin-1')
    n = name.decode('latin-1')
    return ['\\' + p + '\\' + n, p + '\\' + n, '/' + p.replace('\\', '/') + '/' + n.replace('\\', '/')]


def snapshot(d):
    snap = {}
    for root, dirs, files in os.walk(d):
        for f in files:
            p = os.path.join(root, f)
            st = os.stat(p)
            with open(p, 'rb') as fh:
                snap[os.path.relpath(p, d)] = (st.st_size, hashlib.sha1(fh.read()).hexdigest())
        for dd in dirs:
            snap[os.path.relpath(os.path.join(root, dd), d) + '/'] = None
    return snap


def damage_variants(rng, blob, meta, tier):
    """(label, bytes) of damaged versions: every truncation point of the header zone (sampled beyond), length-field and terminator corruptions"""
    out = []
    n = len(blob)
    cut_points = set(range(0, min(n, meta['header_end'] + 2)))
    cut_points |= {meta['data_end'] - 1, meta['data_end'], n - 1, (meta['header_end'] + meta['data_end']) // 2}
    cut_points = sorted(c for c in cut_points if 0 <= c < n)
    if tier == 'quick' and len(cut_points) > 24:
        cut_points = sorted(set(rng.sample(cut_points, 24)) | {0, 1, 21, 22})
    for c in cut_points:
        out.append(('truncate@%d' % c, blob[:c]))
    for fo in meta['fields']:
        for off, val in [(16, b'\xff\xff\xff\xff'), (16, b'\xff\xff\xff\x7f'), (16, b'\x00\x00\x00\x80'), (16, struct.pack('<I', n)), (16, struct.pack('<I', n * 3 + 7)), (16, b'\x00\x00\x00\x00'), (16, b'\x01\x00\x00\x00'), (4, b'\xff\xff\xff\xff'), (0, b'srpC'), (0, b'rcnE'), (0, b'sreV')]:
            b = bytearray(blob)
            b[fo + off:fo + off + 4] = val
            out.append(('field@%d+%d=%s' % (fo, off, val.hex()), bytes(b)))
    # NUL terminators in the header zone replaced
    nuls = [i for i in range(meta['header_end']) if blob[i] == 0]
    for i in (nuls if tier != 'quick' else rng.sample(nuls, min(len(nuls), 10))):
        b = bytearray(blob)
        b[i] = 0x41
        out.append(('nul@%d' % i, bytes(b)))
    for _ in range(6 if tier == 'quick' else 30):
        b = bytearray(blob)
        i = rng.randrange(max(1, meta['header_end']))
        b[i] = rng.randrange(256)
        out.append(('byte@%d=%02x' % (i, b[i]), bytes(b)))
    if tier == 'quick' and len(out) > 60:
        out = out[:3] + rng.sample(out[3:], 57)
    return out


def main(tier):
    chk = core.Check(PROP, 'fault_enumeration', tier)
    runner = core.Runner('asan')
    base = os.path.join(core.BUILD_ROOT, 'tmp', 'c17_sandbox_%d' % os.getpid())
    shutil.rmtree(base, ignore_errors=True)
    os.makedirs(base)
    n_arch = 120 if tier == 'quick' else 1500
    n_damage_src = 12 if tier == 'quick' else 120
    items = []
    meta_of = []
    for i in range(n_arch):
        rng = core.rng('c17', i)
        props, entries, trailer = gen_archive(rng)
        blob, meta = pack(props, entries, trailer)
        d = os.path.join(base, 'a%d' % i)
        os.makedirs(d)
        path = os.path.join(d, 'archive_%d.pbo' % i)
        with open(path, 'wb') as f:
            f.write(blob)
        prefix = dict(props).get(b'prefix')
        via = rng.choice(['cli', 'lib'])
        reads = []
        if prefix is not None:
            for name, data in entries:
                reads += requests_for(prefix, name)
        items.append([{'op': 'vm', 'vm': 0, 'ops': 'basic'}, {'op': 'pbo', 'vm': 0, 'path': path, 'via': via, 'read': reads}])
        meta_of.append({'kind': 'intact', 'dir': d, 'path': path, 'props': props, 'entries': entries, 'prefix': prefix, 'via': via, 'size': len(blob), 'label': 'intact'})
        if i < n_damage_src and entries:
            for k, (label, dblob) in enumerate(damage_variants(rng, blob, meta, tier)):
                dd = os.path.join(base, 'a%d_d%d' % (i, k))
                os.makedirs(dd)
                dpath = os.path.join(dd, 'damaged.pbo')
                with open(dpath, 'wb') as f:
                    f.write(dblob)
                via = rng.choice(['cli', 'lib'])
                items.append([{'op': 'vm', 'vm': 0, 'ops': 'basic'}, {'op': 'pbo', 'vm': 0, 'path': dpath, 'via': via, 'read': reads}])
                meta_of.append({'kind': 'damaged', 'dir': dd, 'path': dpath, 'props': props, 'entries': entries, 'prefix': prefix, 'via': via, 'size': len(dblob), 'label': label})
    # absent archives
    for k in range(6):
        dd = os.path.join(base, 'absent%d' % k)
        os.makedirs(dd)
        dpath = os.path.join(dd, 'nothing_here.pbo')
        via = 'lib'     # the CLI's handling of absent paths is exercised with the real front end below
        items.append([{'op': 'vm', 'vm': 0, 'ops': 'basic'}, {'op': 'pbo', 'vm': 0, 'path': dpath, 'via': via, 'read': ['\\pre\\a.sqf']}])
        meta_of.append({'kind': 'absent', 'dir': dd, 'path': dpath, 'props': [], 'entries': [], 'prefix': None, 'via': via, 'size': 0, 'label': 'absent'})
    before = [snapshot(m['dir']) for m in meta_of]
    results = core.run_items(runner, [], items, batch=8, base_cpu_ms=4000, item_cpu_ms=lambda it: 1500, counters=chk.counters)
    for i, (m, r) in enumerate(zip(meta_of, results)):
        chk.evaluations += 1
        chk.count(m['kind'])
        rep = {'label': m['label'], 'via': m['via'], 'props': [[k.decode('latin-1'), v.decode('latin-1')] for k, v in m['props']],
               'entries': [[n.decode('latin-1'), len(d)] for n, d in m['entries']], 'archive_hex': open(m['path'], 'rb').read()[:4096].hex() if os.path.exists(m['path']) else None}
        chk.sig('%s|%s|%d|%d' % (m['kind'], m['label'].split('@')[0], len(m['entries']), len(m['props'])))
        if i < 3:
            chk.sample({'props': rep['props'], 'entries': rep['entries'], 'via': m['via']})
        after = snapshot(m['dir'])
        if after != before[i]:
            changed = sorted(set(after.items()) ^ set(before[i].items()))[:4]
            chk.violation('fs-changed|' + m['kind'] + '|' + m['via'], '%s archive (%s, via %s): opening it changed the file system: %s' % (m['kind'], m['label'], m['via'], changed), rep)
        if isinstance(r, core.Death):
            chk.death_is_violation(r, '%s archive (%s, via %s)' % (m['kind'], m['label'], m['via']), rep, sig_prefix='pbo|' + m['kind'], sig_suffix=m['kind'])
            continue
        st = r[1]
        if 'exc' in st:
            chk.violation('exception|' + m['kind'], '%s archive (%s): exception escaped: %s' % (m['kind'], m['label'], st['exc']), rep)
            continue
        if st.get('alloc_monitor'):
            chk.count('alloc_monitored')
            limit = 64 * 1024 + 8 * m['size']
            if st['alloc_max'] > limit:
                chk.violation('alloc|' + m['kind'], '%s archive (%s, %d bytes): a single allocation of %d bytes was requested' % (m['kind'], m['label'], m['size'], st['alloc_max']), rep)
                continue
        content = {}
        if m['prefix'] is not None:
            for name, data in m['entries']:
                for q in requests_for(m['prefix'], name):
                    content[q] = (name, data)
        reads = st.get('reads', [])
        if m['kind'] == 'intact':
            if m['via'] == 'cli':
                if not st.get('good'):
                    chk.violation('rejected-intact', 'well-formed archive rejected (props %s, entries %s)' % (rep['props'], rep['entries']), rep)
                    continue
                desc = st['desc']
                got_attrs = [[a.encode('latin-1'), b.encode('latin-1')] for a, b in desc['attributes']]
                if got_attrs != [[k, v] for k, v in m['props']]:
                    chk.violation('attributes', 'properties read %s, stored %s' % (desc['attributes'], rep['props']), rep)
                    continue
                got_files = [[f[0].encode('latin-1'), f[1]] for f in desc['files']]
                if got_files != [[nm, len(d)] for nm, d in m['entries']]:
                    chk.violation('entry-list', 'entry list read %s, stored %s' % (desc['files'], rep['entries']), rep)
                    continue
            for q, rd in zip(items[i][1]['read'], reads):
                name, data = content[q]
                chk.count('entry_reads')
                style = 'lead-backslash' if q.startswith('\\') else 'lead-slash' if q.startswith('/') else 'relative'
                if not rd['found']:
                    chk.violation('entry-not-found|' + style + ('|nested' if b'\\' in name or b'\\' in m['prefix'] else '|flat'), 'entry %r of an intact archive with prefix %r is not found as %r' % (name, m['prefix'], q), dict(rep, request=q))
                    break
                got = rd['data'].encode('latin-1')
                if rd['len'] != len(data) or got != data:
                    chk.violation('entry-bytes|' + style, 'entry %r read as %r returns %d bytes, stored %d; first difference at %s' % (
                        name, q, rd['len'], len(data), next((k for k in range(min(len(got), len(data))) if got[k] != data[k]), 'length')), dict(rep, request=q))
                    break
        else:
            for q, rd in zip(items[i][1]['read'], reads):
                chk.count('damaged_reads')
                if not rd['found']:
                    continue
                chk.count('damaged_reads_exposed')
                name, data = content[q]
                got = rd['data'].encode('latin-1')
                if got == data and rd['len'] == len(data):
                    continue
                # the damaged file may itself be a well-formed archive (a changed name, property or a consistent size): then it says what the entry holds
                ref = parse(open(m['path'], 'rb').read())
                ref_data = dict(ref[1]).get(name) if ref else None
                if ref and ref[2] in (0, 21) and got == ref_data:
                    chk.count('damaged_but_wellformed')
                    continue
                if ref and got == ref_data and chk.known('c17-understated-sizes-accepted'):
                    chk.count('understated_sizes_accepted')
                    continue
                chk.violation('damaged-exposes-garbage|' + m['label'].split('@')[0], 'damaged archive (%s): entry %r is exposed with %d bytes that are not its stored content (%d bytes)' % (m['label'], name, rd['len'], len(data)), dict(rep, request=q))
                break
    run_memcheck_pass(chk, items, meta_of, tier)
    run_cli_cases(chk, base, tier)
    shutil.rmtree(base, ignore_errors=True)
    return chk.finish(
        rule='archives from an independent packer (0-7 entries incl. empty/1-byte/binary, 0-4 properties, nested prefixes and entry names, with/without SHA trailer), opened the CLI way and the library way, '
             'every entry read back through the VFS in three spellings; damaged versions: every truncation point of the header zone plus data/trailer cuts, length/method-field corruptions, '
             'NUL terminators replaced, random header bytes; absent paths; distinct = (kind, damage class, entry count, property count)',
        min_evaluations=100,
        assumptions=['damage is confined to the header zone, length fields and truncation: the format has no per-entry checksum, so flipped data bytes are not detectable by any reader',
                     'allocation bound: largest single request <= 64 KiB + 8 x archive size'])


def run_memcheck_pass(chk, items, meta_of, tier):
    """the same archives through the reader in an uninstrumented build under valgrind memcheck: values read from short reads, stack buffers
    that were only partly filled and heap blocks that were never written are invisible to ASan (the bytes are addressable) but decide
    what the reader believes about a damaged archive"""
    idx = list(range(len(items)))
    if tier == 'thorough':
        # every intact archive and a spread of the damaged ones
        rng = core.rng('c17-memcheck')
        dam = [i for i in idx if meta_of[i]['kind'] != 'intact']
        rng.shuffle(dam)
        idx = [i for i in idx if meta_of[i]['kind'] == 'intact'][:300] + dam[:6000]
    reports, deaths, n = core.run_memcheck([items[i] for i in idx], batch=8, item_cpu_ms=1500)
    chk.count('memcheck_items', n)
    chk.count('memcheck_reports', len(reports))
    for j, rep in reports:
        m = meta_of[idx[j]]
        if not rep['file']:
            # a report whose stack never enters the repository sources: the harness or the C library, not the code under test
            chk.count('memcheck_reports_outside_repo')
            chk.notes.append("memcheck report outside the repository sources: %s" % rep["head"][:300].replace("\n", " / "))
            continue
        key = rep['sig'] + '|' + m['kind']
        if chk.known_by_sig(key):
            continue
        chk.violation(key, 'valgrind memcheck, %s archive (%s, via %s): %s in %s (%s)' % (m['kind'], m['label'], m['via'], rep['kind'], rep['fn'], rep['file']),
                      {'label': m['label'], 'via': m['via'], 'archive_hex': open(m['path'], 'rb').read()[:4096].hex() if os.path.exists(m['path']) else None, 'memcheck': rep['head']})
    for j, d in deaths:
        m = meta_of[idx[j]]
        if d['kind'] in ('wall-timeout', 'cpu-timeout', 'inconclusive'):
            # the ASan pass judges hangs with a budget that means something; under valgrind a timeout is inconclusive
            chk.inconclusive += 1
            continue
        chk.death_is_violation(d, 'under memcheck: %s archive (%s, via %s)' % (m['kind'], m['label'], m['via']), {'label': m['label'], 'via': m['via']}, sig_prefix='memcheck-pbo|' + m['kind'], sig_suffix=m['kind'])


def run_cli_cases(chk, base, tier):
    """the real command line front end (src/cli) over the same instrumented objects: --input-pbo with absent, intact and damaged archives"""
    import subprocess
    from concurrent.futures import ThreadPoolExecutor
    core.build('asan', 'vcli')
    exe = os.path.join(core.BUILD_ROOT, 'asan', 'vcli')
    env = dict(os.environ, ASAN_OPTIONS=core.ASAN_OPTIONS, UBSAN_OPTIONS=core.UBSAN_OPTIONS)
    cases = []
    n = 16 if tier == 'quick' else 150
    for i in range(n):
        rng = core.rng('c17cli', i)
        v = rng.randrange(1, 10**6)
        texts = [(b'config.cpp', ('class FromPbo%d { v = %d; };\n' % (i, v)).encode()), (b'dir\\a.sqf', ('marker_%d' % rng.randrange(10**6)).encode()), (b'b.sqf', ('other_%d' % rng.randrange(10**6)).encode())]
        rng.shuffle(texts)
        prefix = rng.choice(PREFIXES)
        blob, meta = pack([(b'prefix', prefix)], texts, rng.random() < 0.5)
        d = os.path.join(base, 'cli%d' % i)
        os.makedirs(d)
        path = os.path.join(d, 'in.pbo')
        open(path, 'wb').write(blob)
        sqf = 'diag_log str ["cfg", getNumber (configFile >> "FromPbo%d" >> "v")]; ' % i
        expect = ['["cfg",%d]' % v]
        for nm, data in texts:
            if nm != b'config.cpp':
                sqf += 'diag_log str ["file", loadFile %s]; ' % core.sqf_str('\\' + prefix.decode() + '\\' + nm.decode())
                expect.append('["file","%s"]' % data.decode())
        cases.append({'kind': 'intact', 'dir': d, 'path': path, 'sqf': sqf, 'expect': expect, 'label': 'intact'})
        if i < (6 if tier == 'quick' else 40):
            for k, (label, dblob) in enumerate(damage_variants(rng, blob, meta, 'quick')[:10 if tier == 'quick' else 40]):
                dd = os.path.join(base, 'cli%d_d%d' % (i, k))
                os.makedirs(dd)
                dpath = os.path.join(dd, 'in.pbo')
                open(dpath, 'wb').write(dblob)
                cases.append({'kind': 'damaged', 'dir': dd, 'path': dpath, 'sqf': sqf, 'expect': expect, 'label': label})
    for k in range(3):
        dd = os.path.join(base, 'cliabsent%d' % k)
        os.makedirs(dd)
        cases.append({'kind': 'absent', 'dir': dd, 'path': os.path.join(dd, 'nothing_here.pbo'), 'sqf': 'diag_log "ran"', 'expect': ['ran'], 'label': 'absent'})

    def one(c):
        before = snapshot(c['dir'])
        try:
            p = subprocess.run([exe, '-a', '--suppress-welcome', '--no-load-executable-dir', '--no-work-print', '--input-pbo', c['path'], '--sqf', c['sqf'], '-m', '20000'],
                               cwd=c['dir'], env=env, stdout=subprocess.PIPE, stderr=subprocess.PIPE, timeout=120)
        except subprocess.TimeoutExpired:
            return None, before, snapshot(c['dir'])
        return p, before, snapshot(c['dir'])

    with ThreadPoolExecutor(core.NWORKERS) as ex:
        results = list(ex.map(one, cases))
    for c, (p, before, after) in zip(cases, results):
        chk.evaluations += 1
        chk.count('cli_' + c['kind'])
        chk.sig('cli|%s|%s' % (c['kind'], c['label'].split('@')[0]))
        rep = {'front_end': 'vcli', 'label': c['label'], 'sqf': c['sqf'], 'archive_hex': open(c['path'], 'rb').read()[:4096].hex() if os.path.exists(c['path']) and c['kind'] != 'absent' else None}
        if after != before:
            chk.violation('fs-changed|cli|' + c['kind'], 'CLI --input-pbo with %s archive (%s) changed the file system: %s' % (c['kind'], c['label'], sorted(set(after.items()) ^ set(before.items()))[:4]), rep)
        if p is None:
            chk.inconclusive += 1
            continue
        err = p.stderr.decode('latin-1')
        out = p.stdout.decode('latin-1')
        if p.returncode < 0 or 'ERROR: AddressSanitizer' in err or 'runtime error:' in err or 'ERROR: libFuzzer' in err:
            san = core.parse_sanitizer(err)
            sig = (san['sig'] if san else 'died|rc=%s' % p.returncode) + '|cli|' + c['kind']
            if not chk.known_by_sig(sig):
                chk.violation(sig, 'CLI --input-pbo with %s archive (%s): %s' % (c['kind'], c['label'], sig), dict(rep, stderr_tail=err[-3000:]))
            continue
        got = [l.split('[DIAG_LOG] ', 1)[1] for l in out.splitlines() if '[DIAG_LOG] ' in l]
        if c['kind'] == 'intact':
            if got != c['expect']:
                chk.violation('cli-intact-output', 'CLI --input-pbo with an intact archive printed %s, expected %s' % (got, c['expect']), dict(rep, stdout_tail=out[-2000:]))
        elif c['kind'] == 'absent':
            if got != c['expect']:
                chk.violation('cli-absent-output', 'CLI with an absent archive printed %s, expected %s' % (got, c['expect']), dict(rep, stdout_tail=out[-2000:]))
        else:
            # exposed values must be the stored ones; anything not exposed reads as "" / 0
            ref = parse(open(c['path'], 'rb').read())
            for g, e in zip(got, c['expect']):
                chk.count('cli_damaged_values')
                if g != e and g not in ('["file",""]', '["cfg",0]'):
                    if ref and ref[2] in (0, 21):
                        chk.count('damaged_but_wellformed')
                        break
                    if ref and chk.known('c17-understated-sizes-accepted'):
                        chk.count('understated_sizes_accepted')
                        break
                    chk.violation('cli-damaged-exposes-garbage', 'CLI with damaged archive (%s) printed %s where the stored value is %s' % (c['label'], g, e), dict(rep, stdout_tail=out[-2000:]))
                    break


def replay(path):
    with open(path) as f:
        d = json.load(f)
    print(json.dumps(d['replay'], indent=1)[:3000])
    return 1
