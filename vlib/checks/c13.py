"""C13 - preprocessor output equals the reference expansion; strings are inviolate.
Grammar-generated source texts are preprocessed by the real preprocessor and by the small reference expander below;
string literals must be byte-identical, everything else must agree token by token (whitespace-insensitive), and text
without directives, macro names or comments must pass through byte for byte."""
import json
import os
import re
import shutil

from .. import core

PROP = 'C13'

IDENT = re.compile(r'[A-Za-z_][A-Za-z0-9_]*')
TOKEN = re.compile(r'"(?:[^"]|"")*"|[A-Za-z_][A-Za-z0-9_]*|\d+(?:\.\d+)?|\s+|.', re.S)


# ---- reference expander -----------------------------------------------------------------------------------------------

class Macro:
    def __init__(self, name, params, body):
        self.name = name
        self.params = params   # None for object-like
        self.body = body


def strip_comments_and_continuations(text):
    out = []
    i = 0
    n = len(text)
    in_str = False
    while i < n:
        c = text[i]
        if in_str:
            out.append(c)
            if c == '"':
                in_str = False
            i += 1
            continue
        if c == '"':
            in_str = True
            out.append(c)
            i += 1
        elif c == '/' and i + 1 < n and text[i + 1] == '/':
            while i < n and text[i] != '\n':
                i += 1
        elif c == '/' and i + 1 < n and text[i + 1] == '*':
            j = text.find('*/', i + 2)
            j = n if j < 0 else j + 2
            out.append('\n' * text.count('\n', i, j))
            i = j
        elif c == '\\' and i + 1 < n and text[i + 1] == '\n':
            i += 2
        else:
            out.append(c)
            i += 1
    return ''.join(out)


def split_args(text, i):
    """text[i] == '(' ; returns (args raw texts, index after ')')"""
    depth = 0
    args = []
    cur = []
    in_str = False
    j = i
    while j < len(text):
        c = text[j]
        if in_str:
            cur.append(c)
            if c == '"':
                in_str = False
        elif c == '"':
            in_str = True
            cur.append(c)
        elif c in '([{':
            depth += 1
            if depth > 1:
                cur.append(c)
        elif c in ')]}':
            depth -= 1
            if depth == 0:
                args.append(''.join(cur))
                return args, j + 1
            cur.append(c)
        elif c == ',' and depth == 1:
            args.append(''.join(cur))
            cur = []
        else:
            cur.append(c)
        j += 1
    raise ValueError('unterminated macro call')


def expand(text, macros, depth=0):
    if depth > 30:
        raise ValueError('recursion')
    out = []
    i = 0
    n = len(text)
    while i < n:
        c = text[i]
        if c == '"':
            j = i + 1
            while j < n and text[j] != '"':
                j += 1
            out.append(text[i:j + 1])
            i = j + 1
            continue
        m = IDENT.match(text, i)
        if m and (i == 0 or not (text[i - 1].isalnum() or text[i - 1] == '_')):
            name = m.group(0)
            mac = macros.get(name)
            if mac is None:
                out.append(name)
                i = m.end()
                continue
            if mac.params is None:
                out.append(expand(mac.body, macros, depth + 1))
                i = m.end()
                continue
            if m.end() < n and text[m.end()] == '(':
                args, j = split_args(text, m.end())
                if len(args) == 1 and args[0].strip() == '' and len(mac.params) == 0:
                    args = []
                if len(args) != len(mac.params):
                    raise ValueError('argument count')
                body = substitute(mac, args, macros, depth)
                out.append(expand(body, macros, depth + 1))
                i = j
                continue
            out.append(name)
            i = m.end()
            continue
        if m:
            out.append(m.group(0))
            i = m.end()
            continue
        # digits glued to identifiers etc.
        m2 = re.compile(r'[A-Za-z0-9_]+').match(text, i)
        if m2:
            out.append(m2.group(0))
            i = m2.end()
            continue
        out.append(c)
        i += 1
    return ''.join(out)


def substitute(mac, args, macros, depth):
    amap = dict(zip(mac.params, args))
    body = mac.body
    out = []
    i = 0
    n = len(body)
    while i < n:
        c = body[i]
        if c == '"':
            j = i + 1
            while j < n and body[j] != '"':
                j += 1
            out.append(body[i:j + 1])
            i = j + 1
            continue
        if c == '#' and i + 1 < n and body[i + 1] == '#':
            while out and out[-1].isspace():
                out.pop()
            i += 2
            while i < n and body[i] in ' \t':
                i += 1
            continue
        if c == '#':
            m = IDENT.match(body, i + 1)
            if m and m.group(0) in amap:
                out.append('"' + amap[m.group(0)].strip() + '"')
                i = m.end()
                continue
        m = IDENT.match(body, i)
        if m and (i == 0 or not (body[i - 1].isalnum() or body[i - 1] == '_')):
            if m.group(0) in amap:
                out.append(amap[m.group(0)])
            else:
                out.append(m.group(0))
            i = m.end()
            continue
        out.append(c)
        i += 1
    return ''.join(out)


def reference(text, files, path, macros=None, depth=0):
    """returns expanded text (directive lines become empty lines)"""
    macros = {} if macros is None else macros
    text = strip_comments_and_continuations(text)
    out = []
    cond = None   # None | (active, seen_else)
    for line in text.split('\n'):
        st = line.lstrip()
        if st.startswith('#'):
            m = re.match(r'#\s*([A-Za-z]+)\s*(.*)$', st, re.S)
            d = m.group(1).lower() if m else ''
            rest = m.group(2) if m else ''
            active = cond is None or cond[0]
            if d == 'ifdef':
                cond = (rest.strip() in macros, False)
            elif d == 'ifndef':
                cond = (rest.strip() not in macros, False)
            elif d == 'else':
                cond = (not cond[0], True)
            elif d == 'endif':
                cond = None
            elif not active:
                pass
            elif d == 'define':
                mm = re.match(r'([A-Za-z_][A-Za-z0-9_]*)(\(([^)]*)\))?\s?(.*)$', rest, re.S)
                name = mm.group(1)
                params = None
                if mm.group(2) is not None:
                    params = [p.strip() for p in mm.group(3).split(',')] if mm.group(3).strip() else []
                macros[name] = Macro(name, params, mm.group(4).strip())
            elif d == 'undef':
                macros.pop(rest.strip(), None)
            elif d == 'include':
                mi = re.match(r'["<]([^">]*)[">]', rest.strip())
                inc = mi.group(1).replace('\\', '/')
                base = os.path.dirname(path)
                p2 = os.path.normpath(os.path.join(base, inc))
                out.append(reference(files[p2], files, p2, macros, depth + 1))
            out.append('')
            continue
        if cond is not None and not cond[0]:
            out.append('')
            continue
        out.append(expand(line, macros))
    return '\n'.join(out)


def tokens_of(text):
    toks = []
    for t in TOKEN.findall(text):
        if t.isspace():
            continue
        toks.append(t)
    # glue: digits/idents that the expander may have concatenated are already single tokens in both texts
    return toks


def strip_line_markers(text):
    return '\n'.join(l for l in text.split('\n') if not l.startswith('#line '))


# ---- generator -----------------------------------------------------------------------------------------------------------

WORDS = ['alpha', 'beta', 'x', 'y1', 'value', 'lo', 'count', 'Foo', 'bar_baz', 'n0', 'q', 'OBJ1', 'OBJ2', 'OBJ3', 'FN1', 'FN2', 'OBJ4']


class TextGen:
    def __init__(self, rng, allow_include=True):
        self.rng = rng
        self.obj = {}      # name -> body
        self.fn = {}       # name -> (params, body)
        self.files = {}
        self.feats = set()
        self.allow_include = allow_include
        self.n = 0

    def fresh(self, prefix):
        self.n += 1
        return '%s%d' % (prefix, self.n)

    def plain_tokens(self, k, ctx_macros=True):
        r = self.rng
        out = []
        for _ in range(k):
            c = r.random()
            if c < 0.3:
                # a plain word: never the name of a macro that is defined at this point (what a function-like name without
                # an argument list expands to is not fixed by the statement); names that other texts define are welcome
                out.append(r.choice([w for w in WORDS if w not in self.obj and w not in self.fn]))
            elif c < 0.45:
                out.append(str(r.choice([0, 1, 2, 10, 255, 3.5])))
            elif c < 0.6:
                s = r.choice(['text', 'a,b', 'x)y', 'MACRO inside', '// not a comment', '/* nor this */', '#define NO', 'q""q', ''])
                if ctx_macros and self.obj and r.random() < 0.5:
                    s += ' ' + r.choice(sorted(self.obj))   # a macro name inside a string stays as it is
                    self.feats.add('macro-name-in-string')
                out.append('"' + s + '"')
                self.feats.add('string')
            elif c < 0.9:
                out.append(r.choice(['=', ';', '+', '-', '*', '[', ']', '(', ')', '{', '}', ',', '==', '>>']))
            else:
                out.append(r.choice(WORDS[:11]) + r.choice(WORDS[:11]))
        return out

    def use(self, depth=0):
        """a macro use as a token string"""
        r = self.rng
        if self.fn and (not self.obj or r.random() < 0.5):
            name = r.choice(sorted(self.fn))
            params, body = self.fn[name]
            args = []
            for p in params:
                kind = r.random()
                if p in body.replace('##', '# #') and ('#' + p in body or '##' in body):
                    # operand of # or ##: a plain word or number without surrounding blanks
                    args.append(r.choice(['word', 'w2', '7', 'ab_c']))
                    continue
                if kind < 0.3:
                    args.append(r.choice(WORDS[:11]))
                elif kind < 0.45 and depth < 2 and (self.obj or self.fn):
                    args.append(self.use(depth + 1))
                    self.feats.add('macro-in-argument')
                elif kind < 0.6:
                    args.append(r.choice(['[1,2]', '(3,4)', '{5,6}', '"s,t"', '[(1,2),[3]]']))
                    self.feats.add('brackets-in-argument')
                elif kind < 0.7:
                    args.append(' ' + r.choice(WORDS[:11]) + ' ')
                else:
                    args.append(' '.join(self.plain_tokens(r.randint(1, 3), False)).replace(',', ';').replace('(', '').replace(')', '').replace('[', '').replace(']', '').replace('{', '').replace('}', ''))
            self.feats.add('function-like-use')
            return name + '(' + ','.join(args) + ')'
        name = r.choice(sorted(self.obj))
        self.feats.add('object-like-use')
        return name

    def define(self):
        r = self.rng
        if r.random() < 0.5:
            name = self.fresh('OBJ')
            body_toks = self.plain_tokens(r.randint(0, 4))
            if self.obj and r.random() < 0.4:
                body_toks.insert(r.randint(0, len(body_toks)), r.choice(sorted(self.obj)))
                self.feats.add('macro-in-body')
            body = ' '.join(body_toks)
            self.obj[name] = body
            if not body:
                self.feats.add('empty-define')
            return '#define %s %s' % (name, body) if body else '#define %s' % name
        name = self.fresh('FN')
        params = ['p%d_%d' % (self.n, i) for i in range(r.randint(1, 3))]
        toks = self.plain_tokens(r.randint(1, 4))
        for p in params:
            k = r.random()
            if k < 0.15:
                toks.insert(r.randint(0, len(toks)), '#' + p)
                self.feats.add('stringify')
            elif k < 0.3:
                toks.insert(r.randint(0, len(toks)), 'pre' + '##' + p)
                self.feats.add('concat')
            else:
                toks.insert(r.randint(0, len(toks)), p)
        if self.obj and r.random() < 0.3:
            toks.append(r.choice(sorted(self.obj)))
            self.feats.add('macro-in-body')
        body = ' '.join(toks)
        multi = r.random() < 0.2
        if multi:
            # continue the definition on the next line at a blank that is not inside a string literal
            cut = None
            inq = False
            for pos, ch in enumerate(body):
                if ch == '"':
                    inq = not inq
                elif ch == ' ' and not inq:
                    cut = pos
                    break
            if cut is not None:
                body = body[:cut] + ' \\\n   ' + body[cut + 1:]
                self.feats.add('multi-line-define')
        self.fn[name] = (params, body.replace('\\\n', ''))
        return '#define %s(%s) %s' % (name, ','.join(params), body)

    def line(self):
        r = self.rng
        toks = self.plain_tokens(r.randint(1, 5))
        if (self.obj or self.fn) and r.random() < 0.7:
            toks.insert(r.randint(0, len(toks)), self.use())
        if self.obj and r.random() < 0.15:
            # a macro name as part of a longer identifier must not expand
            nm = r.choice(sorted(self.obj))
            toks.append(r.choice([nm + 'x', 'x' + nm, nm + '_1', '_' + nm]))
            self.feats.add('macro-name-as-part-of-identifier')
        s = ' '.join(toks)
        if r.random() < 0.2 and len(toks) > 2:
            # backslash-newline in ordinary code, only between top-level tokens (never inside the argument list of a macro call: recorded defect);
            # the continued line may start at column 0 with a comment or another continuation
            cut = r.randint(1, len(toks) - 1)
            lead = r.choice(['', '', '   ', '/* c */', '// gone\n', '\\\n', '/* a\nb */ '])
            s = ' '.join(toks[:cut]) + ' \\\n' + lead + ' '.join(toks[cut:])
            self.feats.add('continuation-in-code' + ('-then-comment' if lead.startswith('/') else '-twice' if lead.startswith('\\') else ''))
        k = r.random()
        if k < 0.15:
            s += ' // ' + ' '.join(r.choice(WORDS + sorted(self.obj)) for _ in range(r.randint(0, 3)))
            self.feats.add('line-comment')
        elif k < 0.3:
            s = s + ' /* ' + ' '.join(r.choice(WORDS + sorted(self.obj) + ['\n']) for _ in range(r.randint(0, 3))) + ' */ ' + r.choice(WORDS)
            self.feats.add('block-comment')
        return s

    def body(self, nlines, depth=0, path='/main.sqf'):
        r = self.rng
        lines = []
        for _ in range(nlines):
            c = r.random()
            if c < 0.3:
                lines.append(self.define())
            elif c < 0.36 and self.obj:
                nm = r.choice(sorted(self.obj))
                del self.obj[nm]
                lines.append('#undef ' + nm)
                self.feats.add('undef')
            elif c < 0.48:
                known = sorted(list(self.obj) + list(self.fn))
                nm = r.choice(known) if (known and r.random() < 0.6) else 'NOT_DEFINED_%d' % self.n
                neg = r.random() < 0.4
                active = (nm in self.obj or nm in self.fn) != neg
                lines.append(('#ifndef ' if neg else '#ifdef ') + nm)
                saved = (dict(self.obj), dict(self.fn))
                blk = [self.line() if r.random() < 0.6 else self.define() for _ in range(r.randint(1, 3))]
                if not active:
                    self.obj, self.fn = dict(saved[0]), dict(saved[1])   # directives in a dead branch have no effect
                    self.feats.add('define-in-dead-branch')
                lines += blk
                if r.random() < 0.5:
                    lines.append('#else')
                    saved2 = (dict(self.obj), dict(self.fn))
                    blk2 = [self.line() if r.random() < 0.6 else self.define() for _ in range(r.randint(1, 2))]
                    if active:
                        self.obj, self.fn = saved2
                    lines += blk2
                    self.feats.add('else')
                lines.append('#endif')
                self.feats.add('ifndef' if neg else 'ifdef')
            elif c < 0.55 and self.allow_include and depth < 3:
                inc = self.fresh('inc') + '.hpp'
                sub = 'sub%d' % depth if r.random() < 0.5 else ''
                ipath = os.path.normpath(os.path.join(os.path.dirname(path), sub, inc))
                self.files[ipath] = None
                self.files[ipath] = '\n'.join(self.body(r.randint(1, 4), depth + 1, ipath)) + '\n'
                rel = (sub + '\\' if sub else '') + inc
                lines.append('#include "%s"' % rel)
                self.feats.add('include-depth-%d' % (depth + 1))
            else:
                lines.append(self.line())
        return lines


def passthrough_text(rng):
    """text with no directive, macro name or comment: must come out byte for byte"""
    out = []
    for _ in range(rng.randint(1, 6)):
        toks = []
        for _ in range(rng.randint(1, 8)):
            c = rng.random()
            if c < 0.4:
                toks.append(rng.choice(WORDS))
            elif c < 0.6:
                toks.append('"' + rng.choice(['a b', 'x  y', 'tab\there', 'q""q', ' lead', 'trail ', '#', 'a/b', '']) + '"')
            else:
                toks.append(rng.choice(['=', ';', '+', '  ', '\t', '[', ']', '1.5', '(', ')', '{', '}', ',', ':', '!', '<=', '%']))
        out.append(rng.choice(['', ' ', '    ']) + ' '.join(toks))
    return '\n'.join(out) + rng.choice(['', '\n'])


# ---- check -----------------------------------------------------------------------------------------------------------------

def main(tier):
    chk = core.Check(PROP, 'exploration', tier)
    runner = core.Runner('asan')
    sbx = os.path.join(core.BUILD_ROOT, 'tmp', 'c13_sandbox_%d' % os.getpid())
    shutil.rmtree(sbx, ignore_errors=True)
    os.makedirs(sbx)
    n = 3000 if tier == 'quick' else 150000
    npass = 1000 if tier == 'quick' else 30000
    cases = []
    items = []
    for i in range(n):
        rng = core.rng('c13', i)
        g = TextGen(rng)
        lines = g.body(rng.randint(3, 12))
        text = '\n'.join(lines) + '\n'
        root = os.path.join(sbx, 'c%d' % i)
        files = {}
        for p, t in g.files.items():
            files[os.path.normpath(root + p)] = t
        main_path = os.path.normpath(root + '/main.sqf')
        files[main_path] = text
        try:
            ref = reference(text, files, main_path)
        except (ValueError, KeyError, RecursionError, AttributeError, TypeError):
            chk.count('reference_declined')
            continue
        for p, t in files.items():
            os.makedirs(os.path.dirname(p), exist_ok=True)
            with open(p, 'w', encoding='latin-1') as f:
                f.write(t)
        cases.append(('gen', text, ref, g.feats, main_path, {p[len(root):]: t for p, t in files.items()}))
        items.append([{'op': 'pp', 'vm': 0, 'src': text, 'path': main_path}])
    for i in range(npass):
        rng = core.rng('c13p', i)
        text = passthrough_text(rng)
        cases.append(('pass', text, text, {'passthrough'}, os.path.join(sbx, 'p.sqf'), {}))
        items.append([{'op': 'pp', 'vm': 0, 'src': text, 'path': os.path.join(sbx, 'p.sqf')}])
    prefix = [{'op': 'vm', 'vm': 0, 'maps': [[sbx, '/']], 'auto_renew': True}]
    results = core.run_items(runner, prefix, items, batch=50, base_cpu_ms=4000, item_cpu_ms=lambda it: 400, counters=chk.counters)
    allfeats = set()
    for k, ((kind, text, ref, feats, path, files), r) in enumerate(zip(cases, results)):
        chk.evaluations += 1
        chk.sig(kind + '|' + '+'.join(sorted(feats)))
        allfeats |= set(feats)
        rep = {'text': text, 'files': files, 'reference': ref}
        if k < 3:
            chk.sample(text[:800])
        if isinstance(r, core.Death):
            chk.death_is_violation(r, 'preprocessing text #%d' % k, rep)
            continue
        st = r[0]
        if 'exc' in st:
            chk.violation('escaped-exception', 'preprocessor threw on text #%d: %s' % (k, st['exc']), rep)
            continue
        if not st.get('ok'):
            errs = [l[2][:150] for l in core.logs_of(st) if l[0] <= 1]
            chk.violation('rejected|' + (errs[0].split('\t')[-1][:30] if errs else '?'), 'valid text #%d was rejected by the preprocessor: %s' % (k, errs[:2]), rep)
            continue
        got = strip_line_markers(st.get('text', ''))
        if kind == 'pass':
            body = got[1:] if got.startswith('\n') else got
            if got.strip('\n') != text.strip('\n') and got != text:
                chk.violation('passthrough-changed', 'text without directives, macros or comments was altered: %r -> %r' % (text[:200], got[:200]), dict(rep, output=got))
            else:
                chk.count('passthrough_identical')
            continue
        rt, gt = tokens_of(ref), tokens_of(got)
        if rt != gt:
            j = 0
            while j < len(rt) and j < len(gt) and rt[j] == gt[j]:
                j += 1
            is_str = (j < len(rt) and rt[j].startswith('"')) or (j < len(gt) and gt[j].startswith('"'))
            what = 'string-altered' if is_str else 'expansion-differs'
            chk.violation('%s|%s' % (what, '+'.join(sorted(f for f in feats if f in ('stringify', 'concat', 'macro-in-argument', 'define-in-dead-branch', 'undef', 'multi-line-define',
                                                                                  'macro-name-as-part-of-identifier', 'block-comment', 'line-comment', 'brackets-in-argument')))),
                          'preprocessor output of text #%d differs from the reference expansion at token %d: expected %s, got %s (context: ...%s)' % (
                              k, j, rt[j] if j < len(rt) else '<end>', gt[j] if j < len(gt) else '<end>', ' '.join(rt[max(0, j - 6):j])), dict(rep, output=got))
        else:
            chk.count('expansions_equal')
    chk.counters['features_seen'] = sorted(allfeats)
    shutil.rmtree(sbx, ignore_errors=True)
    for e in chk.findings.open + chk.findings.fixed:
        if e.get('probe') is None:
            continue
        r = runner.run([{'steps': [{'op': 'vm', 'vm': 0}, {'op': 'pp', 'vm': 0, 'src': e['probe'], 'path': '/vh/probe.sqf'}]}])[0]
        bad = isinstance(r, core.Death) or not r['res'][1].get('ok') or tokens_of(strip_line_markers(r['res'][1].get('text', ''))) != tokens_of(e['expect'])
        chk.count('probes')
        if e['status'] == 'open':
            if bad:
                chk.known(e['id'])
            else:
                chk.notes.append('known finding %s no longer reproduces' % e['id'])
        elif bad:
            chk.violation('regressed:' + e['id'], 'fixed finding %s regressed' % e['id'], {'text': e['probe']})
    return chk.finish(
        rule='texts from a grammar of #define (object-/function-like, multi-line), #undef, #ifdef/#ifndef/#else/#endif (defines inside dead branches), #include nested <= 3 (model file tree on disk), '
             'macro uses as whole words / parts of longer identifiers / inside strings, nested calls, brackets and strings with commas in arguments, # and ##, line and block comments; '
             'plus directive-free texts for byte-identical pass-through; distinct = set of features in the text',
        min_evaluations=300,
        assumptions=['reference expander in this module; comparison is exact inside string literals and token-wise (whitespace-insensitive) elsewhere',
                     'not generated because the statement does not determine them: CR line ends, blanks at the ends of stringified arguments, macro names as operands of # / ##, recursion, nested conditionals'])


def replay(path):
    with open(path) as f:
        d = json.load(f)
    print(d['replay']['text'])
    print('--- reference ---')
    print(d['replay'].get('reference'))
    print('--- output ---')
    print(d['replay'].get('output'))
    return 1
