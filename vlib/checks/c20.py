"""C20 - runs are deterministic and VM instances are isolated from each other.
output(P in a fresh VM) is recorded in three settings: alone in a fresh process (twice), after Q ran in another VM of the same
process (ASan build), and beside Q running in another VM on another thread (TSan build). The outputs are compared entry by
entry; ThreadSanitizer reports of the two-thread episodes are collected."""
import json
import re

from .. import core
from .. import sqfmodel as m

PROP = 'C20'

CFG_P = 'class CfgIso { a = 1; b = "two"; c[] = {1,2,{3,4}}; class Sub : CfgIso { a = 5; }; };'

# ---- observed programs (deterministic: no time, no random) ----
P_FIXED = {
    'numbers': 'diag_log str [1/3, 1e10, 0.1 + 0.2, 123456789, -0.5, 1e-7, 100000, 1234567, 3.14159274, 0.001, 2^24 + 1];\ndiag_log format ["%1|%2|%3", 1.5, 2/3, [7/9]];\ndiag_log (1.23456 toFixed 2);\ndiag_log str (10 / 4);',
    'numbers2': 'private _a = []; for "_i" from 1 to 12 do { _a pushBack (1 / _i) }; diag_log str _a; diag_log str (_a apply { _x * 1000 }); diag_log str [sqrt 2, pi, exp 1, 1e6 / 7];',
    'preproc': '#define CAT(a,b) a##b\n#define STR(a) #a\n#define TWICE(a) a a\ndiag_log str [__LINE__, CAT(1,2), STR(hello), __FILE__];\n#ifdef POLLUTED\ndiag_log "polluted define visible";\n#else\ndiag_log "clean";\n#endif\n#ifdef VH_Q_MACRO\ndiag_log "Q macro visible";\n#endif\ndiag_log str [__LINE__];',
    'vars': 'diag_log str [isNil "vh_shared", isNil "gq0", isNil "polluted"];\ndiag_log str [missionNamespace getVariable ["vh_shared", "unset"], uiNamespace getVariable ["vh_shared", "unset"], parsingNamespace getVariable ["vh_shared", "unset"], profileNamespace getVariable ["vh_shared", "unset"]];\nvh_shared = "mine"; diag_log str [vh_shared];\ndiag_log str [count (allVariables missionNamespace)];',
    'config': 'diag_log str [isClass (configFile >> "Polluted"), isClass (configFile >> "CfgIso"), getNumber (configFile >> "CfgIso" >> "a"), getNumber (configFile >> "CfgIso" >> "Sub" >> "a"), getText (configFile >> "CfgIso" >> "Sub" >> "b"), getArray (configFile >> "CfgIso" >> "c")];\ndiag_log str [count configFile, configName (configFile select 0)];\ndiag_log str [configHierarchy (configFile >> "CfgIso" >> "Sub"), configHierarchy (configFile >> "CfgIso"), configName inheritsFrom (configFile >> "CfgIso" >> "Sub")];\ndiag_log str [isClass (configFile >> "CfgIso" >> "Sub" >> "nothere"), isNull (configFile >> "CfgIso" >> "nothere" >> "deeper")];',
    'hashmap': 'private _h = createHashMapFromArray [["a",1],["b",2],[3,4],[[1,2],5],[true,6],["zeta",7],["alpha",8]];\ndiag_log str [keys _h];\ndiag_log str _h;\nprivate _n = createHashMap; { _n set [_x, _forEachIndex] } forEach [1, 2, 3, 5, 8, 13, 21, 34, "alpha", "beta", "gamma", true, false, [1], [2,3]]; diag_log str [keys _n]; diag_log str _n;\n_h set ["c", 9]; _h deleteAt "a";\ndiag_log str [keys _h, count _h, "b" in _h];',
    'sorting': 'private _a = [5,3,9,1,7,3,8]; _a sort true; diag_log str _a;\nprivate _b = ["b","A","c","a","B"]; _b sort false; diag_log str _b;\ndiag_log str ([[3,"c"],[1,"a"],[2,"b"]] apply { _x select 1 });\ndiag_log str [toArray "hello", toString [72,105], "abc" find "c", [1,2,3] find 2];',
    'code': 'private _c = { private _x = 1 + 2 * 3; if (_x > 5) then { "big" } else { "small" } };\ndiag_log str _c;\ndiag_log str [call _c, typeName _c, typeName 1, typeName "", typeName [], typeName true, typeName configFile, typeName missionNamespace];',
    'errors': 'diag_log "before";\nprivate _r = [1,2,3] select 1;\ndiag_log str [_r];\n[1] select 5;\ndiag_log "not reached";',
    'objects': 'private _g = createGroup west;\nprivate _o = "Dummy" createVehicle [1,2,3];\ndiag_log str [_g, _o, typeOf _o, side _g, isNull _o];\nprivate _g2 = createGroup east; private _o2 = "Dummy" createVehicle [4,5,6];\ndiag_log str [_g2, _o2, _o2 distance _o];',
    'counter': '#define NEXT __COUNTER__\ndiag_log str [__COUNTER__, NEXT, NEXT];\ndiag_log str [__COUNTER__];',
    'types': 'diag_log str [[1, "a", true, [], {}, configFile, missionNamespace, objNull, grpNull, west, scriptNull] apply { typeName _x }];\ndiag_log str [1 isEqualType 2, "a" isEqualType 1, [] isEqualTypeAll 1, [1,"a"] isEqualTypeArray [2,"b"]];',
}
# values handed out by operators for "nothing there" / default cases: each call must hand out a value of its own
RETURNED = ['getArray (configFile >> "CfgIso" >> "a")', 'getArray (configFile >> "CfgIso" >> "b")', 'getArray (configFile >> "CfgIso" >> "c")', 'getArray (configFile >> "nope")',
            'getArray configNull', 'configHierarchy (configFile >> "CfgIso")', 'allVariables uiNamespace', '"" splitString ","', 'keys createHashMap',
            'toArray ""', '[] + []', '[1,2] - [1,2]', '[] apply {1}', '[] select {true}', 'getArray (configFile >> "CfgIso" >> "Sub" >> "a")']
P_FIXED['returned'] = ';\n'.join('diag_log str [%d, %s]' % (i, e) for i, e in enumerate(RETURNED)) + ';'
P_NEEDS_FULL = {'objects', 'types'}

# ---- polluters ----
Q_POOL = {
    'tofixed': 'toFixed 2; diag_log str [1/3, 1234.5678];',
    'tofixed0': 'toFixed 0; diag_log str 2.5;',
    'counter': '#define N __COUNTER__\ndiag_log str [N, N, N, __COUNTER__];\ndiag_log str [__COUNTER__];',
    'defines': '#define POLLUTED 1\n#define VH_Q_MACRO(x) x + 1\n#define CAT(a,b) "polluted"\n#define STR(a) "polluted"\ndiag_log str [POLLUTED, VH_Q_MACRO(1)];',
    'vars': 'vh_shared = "from Q"; polluted = 1; gq0 = 5; uiNamespace setVariable ["vh_shared", "from Q"]; parsingNamespace setVariable ["vh_shared", "from Q"]; profileNamespace setVariable ["vh_shared", "from Q"]; missionNamespace setVariable ["vh_shared", "from Q"]; for "_i" from 0 to 50 do { missionNamespace setVariable [format ["vh_fill%1", _i], _i] };',
    'config': None,     # loads config text, see below
    'objects': 'for "_i" from 0 to 5 do { createGroup west; createGroup east; "Dummy" createVehicle [_i,0,0] };',
    'errors': 'diag_log "q"; [1] select 9; diag_log "never";',
    'hashmaps': 'private _h = createHashMap; for "_i" from 0 to 200 do { _h set [_i, str _i]; _h set [str _i, _i] }; diag_log str (count _h);',
    'busy': 'private _s = 0; for "_i" from 0 to 20000 do { _s = _s + _i mod 7 }; diag_log str _s; vh_shared = _s;',
    'spawn': 'for "_i" from 0 to 5 do { [] spawn { vh_shared = "spawned"; for "_j" from 0 to 2000 do { vh_k = _j } } }; vh_shared = "q main";',
    'strings': 'private _s = ""; for "_i" from 0 to 300 do { _s = _s + str _i }; diag_log str (count _s); diag_log format ["%1 %2 %3", 1/7, _s select [0, 5], [1.5, "x"]];',
}
# instances without any operator set (sqfvm_create_instance_empty): they touch the value types in the order the script uses them
Q_POOL['bare1'] = 'a = "text"; b = true; c = [1,2]; d = 1; e = {};'
Q_POOL['bare2'] = 'e = {}; d = 1.5; c = []; b = false; a = "";'
Q_POOL['bare3'] = 'c = [true, "x", 1, {}];'
# a script that changes in place every array an operator hands to it (a result shared between calls would carry the change to the next caller)
Q_POOL['mutate-returned'] = ';\n'.join('private _r%d = %s; if (_r%d isEqualType []) then { _r%d pushBack 7; _r%d append ["left over", [1]]; _r%d set [0, "q"] }' % (i, e, i, i, i, i) for i, e in enumerate(RETURNED)) + '; diag_log "mutated";'
Q_BARE = {'bare1', 'bare2', 'bare3'}
Q_NEEDS_FULL = {'objects'}
Q_CFG = 'class Polluted { x = 1; }; class CfgIso { a = 99; b = "polluted"; c[] = {9}; class Sub { a = 77; }; };'


def p_steps(name, src, full):
    steps = [{'op': 'vm', 'vm': 1, 'ops': 'full' if full else 'basic', 'max_runtime_ms': 0}]
    if name in ('config', 'returned'):
        steps.append({'op': 'cfg', 'vm': 1, 'src': CFG_P})
    if name == 'objects':
        steps.append({'op': 'cfg', 'vm': 1, 'src': 'class CfgVehicles { class Dummy { scope = 2; }; };'})
    steps.append({'op': 'run', 'vm': 1, 'src': src, 'path': '/vh/p.sqf'})
    return steps


def q_steps(name, full, vm=2):
    steps = [{'op': 'vm', 'vm': vm, 'ops': 'none' if name in Q_BARE else 'full' if full else 'basic', 'max_runtime_ms': 0, 'defines': [['POLLUTED', '1'], ['VH_Q_MACRO', '2']] if name == 'defines' else []}]
    if name == 'config':
        steps.append({'op': 'cfg', 'vm': vm, 'src': Q_CFG})
        steps.append({'op': 'run', 'vm': vm, 'src': 'diag_log str [isClass (configFile >> "Polluted"), configHierarchy (configFile >> "Polluted"), configHierarchy (configFile >> "CfgIso" >> "Sub"), configHierarchy (configFile >> "CfgIso"), isClass (configFile >> "Polluted" >> "nothere"), isClass (configFile >> "CfgIso" >> "nothere"), isClass (configFile >> "CfgIso" >> "Sub" >> "nothere")]', 'path': '/vh/q.sqf'})
    else:
        if name == 'objects':
            steps.append({'op': 'cfg', 'vm': vm, 'src': 'class CfgVehicles { class Dummy { scope = 2; }; };'})
        if name == 'mutate-returned':
            steps.append({'op': 'cfg', 'vm': vm, 'src': CFG_P})
        steps.append({'op': 'run', 'vm': vm, 'src': Q_POOL[name], 'path': '/vh/q.sqf'})
    return steps


# objects and groups print the address of their C++ object in front of their id (as the game does); addresses are not output
ADDR = re.compile(r'0x[0-9a-f]{6,}#')


def output_of(steps_res):
    """what a user sees of P: every log entry up to info level, in order (level, text)"""
    out = []
    for st in steps_res:
        if 'exc' in st:
            out.append(('exc', st['exc']))
        for l in core.logs_of(st):
            if l[0] <= 3:
                out.append((l[0], ADDR.sub('0xADDR#', l[2])))
        if 'r' in st:
            out.append(('result', st['r']))
    return out


def first_diff(a, b):
    for k in range(max(len(a), len(b))):
        x = a[k] if k < len(a) else None
        y = b[k] if k < len(b) else None
        if x != y:
            return k, x, y
    return None


def main(tier):
    chk = core.Check(PROP, 'exploration', tier)
    avoid = {e['avoid'] for e in chk.findings.open if e.get('avoid')}
    progs = dict(P_FIXED)
    n_gen = 12 if tier == 'quick' else 150
    for i in range(n_gen):
        rng = core.rng('c20p', i)
        g = m.Gen(rng, max_depth=4, max_stmts=rng.choice([10, 20, 40]), avoid=set())
        progs['gen%d' % i] = m.emit_program(g.program())
    pnames = sorted(progs)
    qnames = sorted(Q_POOL)
    # ---------- A: alone, each in a fresh process, twice
    asan = core.Runner('asan')
    tsan = core.Runner('tsan', workers=8)
    base = {}
    for flavour, runner in (('asan', asan), ('tsan', tsan)):
        for full in (False, True):
            names = [p for p in pnames if full or p not in P_NEEDS_FULL]
            if full:
                names = [p for p in names if p in P_FIXED]      # the full operator set costs ~0.3 s per VM; generated programs only need the basic one
            cases = [{'steps': p_steps(p, progs[p], full), 'exit_after': True, 'cpu_ms': 60000} for p in names for _ in range(2)]
            res = runner.run(cases)
            for k, p in enumerate(names):
                r1, r2 = res[2 * k], res[2 * k + 1]
                chk.evaluations += 1
                chk.count('alone_runs', 2)
                if isinstance(r1, core.Death) or isinstance(r2, core.Death):
                    d = r1 if isinstance(r1, core.Death) else r2
                    chk.death_is_violation(d, 'program %s alone (%s, %s operators)' % (p, flavour, 'all' if full else 'basic'), {'p': progs[p]}, sig_prefix='alone|' + p, sig_suffix='alone')
                    continue
                o1, o2 = output_of(r1['res']), output_of(r2['res'])
                chk.sig('alone|%s|%s|%d' % (p, full, len(o1)))
                if o1 != o2:
                    k_, x, y = first_diff(o1, o2)
                    chk.violation('nondeterministic|' + p, 'program %s run alone in two fresh processes printed different output at entry %d: %r vs %r' % (p, k_, x, y), {'p': progs[p]})
                    continue
                base[(flavour, full, p)] = o1
    # the two builds must agree with each other too (same code, different sanitizer)
    for (flavour, full, p), o in list(base.items()):
        if flavour == 'tsan' and ('asan', full, p) in base and base[('asan', full, p)] != o:
            k_, x, y = first_diff(base[('asan', full, p)], o)
            chk.violation('build-dependent|' + p, 'program %s prints differently in the two sanitizer builds at entry %d: %r vs %r' % (p, k_, x, y), {'p': progs[p]})
    # ---------- B: after Q, same process, other VM (Q's VM kept alive or dropped)
    pairs = []
    for p in pnames:
        for q in qnames:
            full = p in P_NEEDS_FULL or q in Q_NEEDS_FULL
            if full and p not in P_FIXED:
                continue
            if tier == 'quick' and p.startswith('gen') and q not in ('tofixed', 'vars', 'defines', 'busy'):
                continue
            pairs.append((p, q, full))
    cases = []
    for i, (p, q, full) in enumerate(pairs):
        keep = i % 2 == 0
        steps = q_steps(q, full) + ([] if keep else [{'op': 'drop', 'vm': 2}]) + p_steps(p, progs[p], full)
        cases.append({'steps': steps, 'exit_after': True, 'cpu_ms': 60000})
    res = asan.run(cases)
    for (p, q, full), c, r in zip(pairs, cases, res):
        chk.evaluations += 1
        chk.count('after_runs')
        chk.sig('after|%s|%s' % (p, q))
        replay = {'q': Q_POOL[q] or Q_CFG, 'p': progs[p], 'steps': c['steps']}
        if isinstance(r, core.Death):
            chk.death_is_violation(r, 'program %s after polluter %s' % (p, q), replay, sig_prefix='after|%s|%s' % (q, p), sig_suffix='after')
            continue
        want = base.get(('asan', full, p))
        if want is None:
            chk.inconclusive += 1
            continue
        nq = len(q_steps(q, full)) + (0 if 'drop' not in [s['op'] for s in c['steps']] else 1)
        got = output_of(r['res'][nq:])
        if got != want:
            k_, x, y = first_diff(want, got)
            sig = 'after|%s|%s' % (q, p if p in P_FIXED else 'gen')
            if not chk.known_by_sig(sig):
                chk.violation(sig, 'program %s prints differently after %s ran in another VM of the process: entry %d alone %r, after Q %r' % (p, q, k_, x, y), dict(replay, alone=want[:40], after=got[:40]))
    # ---------- C: beside Q, two threads, TSan build
    cases, meta = [], []
    reps = 3 if tier == 'quick' else 6
    for i, (p, q, full) in enumerate(pairs):
        if tier == 'quick' and i % 2 == 1 and p.startswith('gen'):
            continue
        jobs = [{'steps': p_steps(p, progs[p], full), 'repeat': reps}, {'steps': q_steps(q, full), 'repeat': reps}]
        if i % 5 == 0:
            jobs.append({'steps': p_steps(p, progs[p], full), 'repeat': reps})     # and P beside itself
        cases.append({'steps': [{'op': 'parallel', 'jobs': jobs}], 'exit_after': True, 'cpu_ms': 120000})
        meta.append((p, q, full))
    res = tsan.run(cases)
    for (p, q, full), c, r in zip(meta, cases, res):
        chk.evaluations += 1
        chk.count('beside_runs')
        chk.sig('beside|%s|%s' % (p, q))
        replay = {'q': Q_POOL[q] or Q_CFG, 'p': progs[p], 'steps': c['steps']}
        if isinstance(r, core.Death):
            chk.death_is_violation(r, 'program %s beside polluter %s' % (p, q), replay, sig_prefix='beside|%s|%s' % (q, p), sig_suffix='beside')
            continue
        for t in r.get('tsan', []):
            chk.count('tsan_reports')
            if not chk.known_by_sig(t['sig']):
                chk.violation(t['sig'], '%s while program %s ran beside %s\n%s' % (t['sig'], p, q, t['head'][:1500]), dict(replay, tsan=t['head']))
        want = base.get(('tsan', full, p))
        if want is None:
            chk.inconclusive += 1
            continue
        jobs = r['res'][0]['jobs']
        for j in [0] + ([2] if len(jobs) > 2 else []):
            got = output_of(jobs[j])
            if got != want:
                k_, x, y = first_diff(want, got)
                sig = 'beside|%s|%s' % (q, p if p in P_FIXED else 'gen')
                if not chk.known_by_sig(sig):
                    chk.violation(sig, 'program %s prints differently while %s runs in another VM on another thread: entry %d alone %r, beside Q %r' % (p, q, k_, x, y), dict(replay, alone=want[:40], beside=got[:40]))
                break
    chk.counters['programs'] = len(pnames)
    chk.counters['polluters'] = len(qnames)
    return chk.finish(
        rule='%d observed programs (number formatting, preprocessor, variables in 4 namespaces, config, hashmap order, sorting, code printing, runtime errors, objects/groups/markers, type names, %d generated control-flow programs) x %d polluters '
             '(toFixed modes, __COUNTER__, defines, variables, config, objects, errors, hashmaps, busy loops, spawned scripts, strings); settings: alone in a fresh process (x2, both builds), after Q in the same process '
             '(Q\'s VM alive / dropped), beside Q on another thread (TSan, %d repetitions each, some with P beside itself); distinct = (setting, P, Q)' % (len(pnames), n_gen, len(qnames), reps),
        min_evaluations=100,
        assumptions=['observed programs avoid time and random operators (the property excludes them)', 'heap addresses printed in front of object/group ids are masked before comparing', 'output = every log entry up to info level with its text, in order, plus the result of the run'])


def replay(path):
    with open(path) as f:
        d = json.load(f)
    print(json.dumps(d['replay'], indent=1)[:3000])
    return 1
