"""C06 - str / literals round-trip.
(a) values: for generated v,  v isEqualTo (call compile str v)  is evaluated inside the real VM;
(b) code: every generated block compiles back from its str to an instruction-for-instruction equal block;
(c) literals: the float bits / string bytes of numeric and string literals are compared with what they spell;
(d) pretty printer: its output compiles to the same instruction listing as its input."""
import json
import struct

from .. import core
from . import c01

PROP = 'C06'


# ---- (a) values -----------------------------------------------------------------------------------------------------

def gen_number(rng):
    """a number whose shortest decimal form has <= 6 significant digits, as SQF literal text"""
    c = rng.random()
    if c < 0.15:
        return rng.choice(['0', '1', '-1', '0.5', '999999', '-999999', '1e6', '1.5e6', '1e-7', '123456', '0.000123456', '1e38', '-1e38', '1e-38', '1e-40',
                           '3e-39', '1.17549e-38', '3.40282e38', '0.1', '0.3', '1e10', '2e-45', '65504', '4.2e-41', '7e-42'])
    digits = rng.randint(1, 6)
    m = rng.randint(10 ** (digits - 1), 10 ** digits - 1)
    e = rng.randint(-44, 33)
    sign = '-' if rng.random() < 0.3 else ''
    txt = '%s%de%d' % (sign, m, e)
    try:
        v = float(txt)
    except ValueError:
        return '1'
    if v != 0 and not (1.5e-45 <= abs(v) <= 3.4e38):
        return '%s%d' % (sign, m)
    # spell it in a random but equivalent way
    style = rng.random()
    if style < 0.4 and -6 <= e <= 6:
        t = repr(float(txt))
        if 'e' in t or 'E' in t or len(t) > 18:
            return txt
        return t[:-2] if t.endswith('.0') else t
    return txt


def gen_string(rng):
    n = rng.choice([0, 1, 2, 5, 12, 40])
    pool = rng.choice(['ascii', 'bytes', 'hostile'])
    out = []
    for _ in range(n):
        if pool == 'ascii':
            out.append(chr(rng.randint(32, 126)))
        elif pool == 'bytes':
            out.append(chr(rng.randint(1, 255)))
        else:
            out.append(rng.choice(['"', "'", '\n', '\t', '\r', '//', '/*', '*/', '#', '\\', '%1', ';', '{', '}', '""', ' ', 'a']))
    return ''.join(out)


def gen_value(rng, depth):
    """returns SQF literal text of a value"""
    c = rng.random()
    if depth <= 0 or c < 0.55:
        k = rng.random()
        if k < 0.45:
            return gen_number(rng)
        if k < 0.85:
            return core.sqf_str(gen_string(rng))
        return rng.choice(['true', 'false'])
    if c < 0.9:
        return '[' + ','.join(gen_value(rng, depth - 1) for _ in range(rng.randint(0, 4))) + ']'
    return '{' + rng.choice(['', '1', 'a = 1; b', '_x + 1', '[1,"s"]', 'if (a) then {b} else {c}']) + '}'


# ---- (b) code -------------------------------------------------------------------------------------------------------

def _no_neg_hex(t):
    if t[0] == 'num':
        return ('num', t[1], 'dec') if (t[1] < 0 and t[2] == 'hex') else t
    if t[0] == 'un':
        return ('un', t[1], _no_neg_hex(t[2]))
    if t[0] == 'bin':
        return ('bin', t[1], t[2], _no_neg_hex(t[3]), _no_neg_hex(t[4]))
    if t[0] in ('arr', 'code'):
        return (t[0], [_no_neg_hex(c) for c in t[1]])
    return t


AVOID_NEG_HEX = [False]


def gen_code(rng, kinds, prec, depth):
    g = c01.TreeGen(rng, kinds, prec, depth)
    g.avoid_un_nular = True
    stmts = []
    for _ in range(rng.randint(1, 3)):
        t = g.tree(0, {'nular_any': True})
        if AVOID_NEG_HEX[0]:
            t = _no_neg_hex(t)
        txt = c01.join(rng, c01.tokens(rng, t, False, 0.1), False)
        k = rng.random()
        if k < 0.2:
            txt = rng.choice(['a', 'gvar', '_l']) + ' = ' + txt
        elif k < 0.35:
            txt = 'private ' + rng.choice(['_p', '_q']) + ' = ' + txt
        stmts.append(txt)
    return '{ ' + '; '.join(stmts) + ' }', c01.signature(t)


# ---- (c) literals ---------------------------------------------------------------------------------------------------

def f32_bits(x):
    try:
        return '%08x' % struct.unpack('I', struct.pack('f', x))[0]
    except OverflowError:
        return '7f800000' if x > 0 else 'ff800000'


def gen_literal(rng):
    c = rng.random()
    if c < 0.5:
        txt = gen_number(rng).lstrip('-')
        return txt, float(txt)
    if c < 0.65:
        v = rng.choice([0, 1, 15, 255, 4096, 65535, 16777215, 16777217, 0x7fffffff, 0xABCDEF])
        return rng.choice(['0x%x', '0x%X', '$%X']) % v, float(v)
    if c < 0.8:
        d = rng.randint(1, 999999)
        return '.%d' % d, float('0.%d' % d)
    m = rng.randint(1, 99999)
    e = rng.randint(-40, 30)
    txt = rng.choice(['%de%d', '%dE%d', '%d.0e%d']) % (m, e)
    if e >= 0 and rng.random() < 0.3:
        txt = '%de+%d' % (m, e)
    return txt, float(txt)


# ---- check ------------------------------------------------------------------------------------------------------------

def fixed_mode_pass(chk, runner, vmstep, tier):
    """str while a fixed number of decimals is selected (unary toFixed n): integral values lose nothing to the fixed notation, so the text
    must still compile back to an equal value, at every magnitude a single-precision number can have. Runs in worker processes of its
    own because the mode is process-wide (recorded C20 finding): an item that died between switching the mode on and off must not meet
    values with fractions."""
    n = 600 if tier == 'quick' else 40000
    items, meta = [], []
    for i in range(n):
        rng = core.rng('c06f', i)
        digits = rng.randint(1, 6)
        m = rng.randint(10 ** (digits - 1), 10 ** digits - 1)
        e = rng.choice([0, 0, 1, 3, 6, 9, 12, 20, 25, 28, 29, 30, 31, 32, 33]) if rng.random() < 0.7 else rng.randint(0, 33)
        if float('%de%d' % (m, e)) > 3.4e38:
            e = 38 - digits
        lit = '%s%de%d' % ('-' if rng.random() < 0.3 else '', m, e)
        mode = rng.choice([0, 0, 1, 2, 3, 6, 10, 19, 20])
        shape = rng.choice(['scalar', 'array', 'nested', 'code'])
        v = {'scalar': lit, 'array': '[%s, 1, %s]' % (lit, lit), 'nested': '[[%s], [[%s, "s"]]]' % (lit, lit), 'code': '{%s}' % lit}[shape]
        src = ('vh_v = %s; toFixed %d; vh_s = str vh_v; toFixed -1; vh_w = call compile vh_s; '
               'diag_log str [vh_v isEqualTo vh_w, vh_w isEqualTo vh_v]; diag_log vh_s') % (v, mode)
        if shape == 'code':
            src = ('vh_v = %s; toFixed %d; vh_s = str vh_v; toFixed -1; vh_w = call compile vh_s; '
                   'diag_log str [(call vh_v) isEqualTo (call vh_w), (assembly__ vh_v) isEqualTo (assembly__ vh_w)]; diag_log vh_s') % (v, mode)
        items.append([{'op': 'run', 'vm': 0, 'src': src, 'reset_ts': True, 'nopp': True}])
        meta.append((v, mode, shape, e))
    results = core.run_items(runner, [vmstep], items, batch=60, base_cpu_ms=4000, item_cpu_ms=lambda it: 300)
    for (v, mode, shape, e), r in zip(meta, results):
        chk.evaluations += 1
        chk.sig('fixed|%d|%s|e%d' % (mode, shape, e))
        if isinstance(r, core.Death):
            chk.death_is_violation(r, 'fixed-decimals case `%s` (toFixed %d)' % (v, mode), {'kind': 'fixed', 'input': v, 'mode': mode})
            continue
        st = r[0]
        errs = core.error_logs(core.logs_of(st))
        vals = core.diag_values(core.logs_of(st))
        if errs or 'exc' in st or not vals:
            chk.violation('fixed-roundtrip-error|' + shape, 'round trip of %s under toFixed %d raised: %s' % (v, mode, (errs[0][2] if errs else str(st.get('exc')))[:200]), {'value': v, 'mode': mode})
        elif vals[0] != '[true,true]':
            chk.violation('fixed-roundtrip|' + shape, 'with toFixed %d in force, call compile str v is not equal to v for the integral v = %s ; str v = %s' % (mode, v, (vals[1] if len(vals) > 1 else '?')[:200]),
                          {'value': v, 'mode': mode, 'printed': vals[1] if len(vals) > 1 else None})
        else:
            chk.count('fixed_mode_round_tripped')


def main(tier):
    chk = core.Check(PROP, 'exploration', tier)
    runner = core.Runner('asan')
    vmstep = {'op': 'vm', 'vm': 0, 'dummies': c01.DUMMIES, 'max_runtime_ms': 500, 'auto_renew': True}
    reg = runner.run([{'steps': [vmstep, {'op': 'registry', 'vm': 0}]}])[0]['res'][1]
    kinds, prec = c01.classes(reg)
    nv = 5000 if tier == 'quick' else 300000
    ncode = 2500 if tier == 'quick' else 150000
    nl = 2500 if tier == 'quick' else 100000
    npp = 1200 if tier == 'quick' else 60000
    avoid_pp_parens = any(e.get('avoid') == 'pretty-parens' for e in chk.findings.open)
    AVOID_NEG_HEX[0] = any(e.get('avoid') == 'negative-hex-in-code' for e in chk.findings.open)
    items = []
    meta = []
    for i in range(nv):
        rng = core.rng('c06v', i)
        lit = gen_value(rng, rng.randint(0, 4 if tier == 'thorough' else 3))
        src = 'vh_v = %s; vh_s = str vh_v; vh_w = call compile vh_s; diag_log str [vh_v isEqualTo vh_w, vh_w isEqualTo vh_v, vh_s isEqualTo (str vh_w)]' % lit
        items.append([{'op': 'run', 'vm': 0, 'src': src, 'reset_ts': True, 'nopp': True}])
        meta.append(('value', lit))
    for i in range(ncode):
        rng = core.rng('c06c', i)
        code, sig = gen_code(rng, kinds, prec, rng.randint(1, 4 if tier == 'quick' else 6))
        src = ('vh_c = %s; vh_s = str vh_c; vh_d = call compile vh_s; '
               'diag_log str [(assembly__ vh_c) isEqualTo (assembly__ vh_d), vh_c isEqualTo vh_d]; diag_log vh_s') % code
        items.append([{'op': 'run', 'vm': 0, 'src': src, 'reset_ts': True, 'nopp': True}])
        meta.append(('code', code, sig))
    for i in range(nl):
        rng = core.rng('c06l', i)
        if rng.random() < 0.75:
            txt, val = gen_literal(rng)
            items.append([{'op': 'eval', 'vm': 0, 'src': txt}])
            meta.append(('numlit', txt, val))
        else:
            s = gen_string(rng)
            q = rng.choice(['"', "'"]) if "'" not in s or '"' not in s else '"'
            txt = q + s.replace(q, q + q) + q
            items.append([{'op': 'eval', 'vm': 0, 'src': txt}])
            meta.append(('strlit', txt, s))
    for i in range(npp):
        rng = core.rng('c06p', i)
        g = c01.TreeGen(rng, kinds, prec, rng.randint(1, 4))
        g.avoid_un_nular = True
        stm = []
        needs_parens = False
        for _ in range(rng.randint(1, 3)):
            t = g.tree(0, {'nular_any': True})
            toks = c01.tokens(rng, t, False, 0)
            if '(' in toks:
                needs_parens = True
            stm.append(c01.join(rng, toks, False))
        text = ';\n'.join(stm) + ';'
        if needs_parens and avoid_pp_parens:
            continue
        items.append([{'op': 'parse', 'vm': 0, 'src': text}, {'op': 'pretty', 'vm': 0, 'src': text}])
        meta.append(('pretty', text, needs_parens))
    results = core.run_items(runner, [vmstep], items, batch=60, base_cpu_ms=4000, item_cpu_ms=lambda it: 300, counters=chk.counters)
    fixed_mode_pass(chk, runner, vmstep, tier)
    # second pass for the pretty printer: parse its output
    pp_items = []
    pp_idx = []
    for k, (mt, r) in enumerate(zip(meta, results)):
        if mt[0] == 'pretty' and not isinstance(r, core.Death) and r[0].get('ok') and 'exc' not in r[1]:
            pp_items.append([{'op': 'parse', 'vm': 0, 'src': r[1].get('text', '')}])
            pp_idx.append(k)
    pp_res = core.run_items(runner, [vmstep], pp_items, batch=60, base_cpu_ms=4000, item_cpu_ms=lambda it: 300) if pp_items else []
    pp_map = dict(zip(pp_idx, pp_res))
    for k, (mt, r) in enumerate(zip(meta, results)):
        chk.evaluations += 1
        kind = mt[0]
        if isinstance(r, core.Death):
            chk.death_is_violation(r, '%s case `%s`' % (kind, mt[1][:200]), {'kind': kind, 'input': mt[1]})
            continue
        st = r[0]
        if kind == 'value':
            lit = mt[1]
            chk.sig('value|' + _shape(lit))
            if k < 3:
                chk.sample(lit[:300])
            errs = core.error_logs(core.logs_of(st))
            vals = core.diag_values(core.logs_of(st))
            if errs or 'exc' in st:
                chk.violation('value-roundtrip-error|' + _shape(lit)[:20], 'round trip of value %s raised: %s' % (lit[:300], (errs[0][2] if errs else st.get('exc'))[:200]), {'literal': lit})
            elif vals != ['[true,true,true]']:
                chk.violation('value-roundtrip|' + _shape(lit)[:20], 'call compile str v is not equal to v for v = %s (v isEqualTo w, w isEqualTo v, str v isEqualTo str w) = %s' % (lit[:300], vals),
                              {'literal': lit})
            else:
                chk.count('values_round_tripped')
        elif kind == 'code':
            code = mt[1]
            chk.sig('code|' + mt[2])
            errs = core.error_logs(core.logs_of(st))
            vals = core.diag_values(core.logs_of(st))
            if errs or 'exc' in st or len(vals) < 1:
                chk.violation('code-roundtrip-error', 'round trip of code %s raised: %s' % (code[:300], (errs[0][2] if errs else str(st.get('exc')))[:300]), {'code': code, 'printed': vals[1:] if vals else None})
            elif vals[0] != '[true,true]':
                chk.violation('code-roundtrip', 'compile str c differs from c for c = %s ; str c = %s ; (listing equal, isEqualTo) = %s' % (code[:300], vals[1][:300] if len(vals) > 1 else '?', vals[0]),
                              {'code': code, 'printed': vals[1] if len(vals) > 1 else None})
            else:
                chk.count('code_round_tripped')
        elif kind == 'numlit':
            txt, val = mt[1], mt[2]
            chk.sig('numlit|' + ''.join('d' if ch.isdigit() else ch for ch in txt)[:12])
            if not st.get('ok') or 'bits' not in st:
                chk.violation('literal-rejected|' + txt[:2], 'numeric literal %s did not evaluate to a number: %s' % (txt, json.dumps(st)[:200]), {'literal': txt})
            elif st['bits'] != f32_bits(val):
                chk.violation('literal-value|' + ('hex' if txt[0] in '0$' and len(txt) > 1 and txt[1] in 'xX0123456789ABCDEFabcdef' and not txt[1].isdigit() else 'dec'),
                              'numeric literal %s evaluates to float bits %s, the nearest single-precision value of what it spells is %s' % (txt, st['bits'], f32_bits(val)), {'literal': txt})
            else:
                chk.count('numeric_literals_exact')
        elif kind == 'strlit':
            txt, s = mt[1], mt[2]
            chk.sig('strlit|%d|%s' % (len(s), txt[0]))
            if not st.get('ok') or st.get('raw') != s:
                chk.violation('string-literal', 'string literal %r denotes %r, evaluated to %r' % (txt[:100], s[:100], st.get('raw')), {'literal': txt})
            else:
                chk.count('string_literals_exact')
        elif kind == 'pretty':
            text = mt[1]
            chk.sig('pretty|' + _shape(text)[:30])
            if not st.get('ok'):
                chk.count('pretty_input_rejected')
                continue
            pst = r[1]
            if 'exc' in pst:
                chk.violation('pretty-exception', 'pretty printer threw on `%s`: %s' % (text[:200], pst['exc']), {'text': text})
                continue
            pr = pp_map.get(k)
            if pr is None or isinstance(pr, core.Death):
                chk.violation('pretty-crash', 'pretty printer output of `%s` could not be parsed (worker died)' % text[:200], {'text': text})
                continue
            if not pr[0].get('ok') or pr[0].get('listing') != st.get('listing'):
                chk.violation('pretty-roundtrip|' + ('parens' if mt[2] else 'plain'), 'pretty-printed text compiles to a different instruction sequence: input `%s` printed as `%s`' % (
                    text[:300], pst.get('text', '')[:300]), {'text': text, 'printed': pst.get('text')})
            else:
                chk.count('pretty_round_tripped')
    # probes of recorded findings
    for e in chk.findings.open + chk.findings.fixed:
        if e.get('code_probe'):
            src = 'vh_c = %s; vh_d = call compile str vh_c; diag_log str [(assembly__ vh_c) isEqualTo (assembly__ vh_d)]' % e['code_probe']
            r = runner.run([{'steps': [vmstep, {'op': 'run', 'vm': 0, 'src': src, 'nopp': True}]}])[0]
            bad = isinstance(r, core.Death) or core.diag_values(core.logs_of(r['res'][1])) != ['[true]']
            if e['status'] == 'open':
                if bad:
                    chk.known(e['id'])
                else:
                    chk.notes.append('known finding %s no longer reproduces' % e['id'])
            elif bad:
                chk.violation('regressed:' + e['id'], 'fixed finding %s regressed' % e['id'], {'code': e['code_probe']})
            continue
        if not e.get('probe'):
            continue
        text = e['probe']
        r = runner.run([{'steps': [vmstep, {'op': 'parse', 'vm': 0, 'src': text}, {'op': 'pretty', 'vm': 0, 'src': text}]}])[0]
        bad = True
        if not isinstance(r, core.Death):
            out = r['res'][2].get('text', '')
            r2 = runner.run([{'steps': [vmstep, {'op': 'parse', 'vm': 0, 'src': out}]}])[0]
            bad = isinstance(r2, core.Death) or r2['res'][1].get('listing') != r['res'][1].get('listing')
        if e['status'] == 'open':
            if bad:
                chk.known(e['id'])
            else:
                chk.notes.append('known finding %s no longer reproduces' % e['id'])
        elif bad:
            chk.violation('regressed:' + e['id'], 'fixed finding %s regressed' % e['id'], {'text': text})
    return chk.finish(
        rule='(a) values: booleans, strings over bytes 1..255 (incl. quotes, newlines, comment markers), numbers d*10^e with <= 6 significant digits and e in [-44,33], nested arrays, code; '
             '(b) code blocks whose bodies are C01 trees with assignments; (c) decimal/exponent/leading-dot/hex literals compared bit for bit with the nearest float32, string literals byte for byte; '
             '(d) pretty-printer output re-parsed; distinct = value shape / tree signature / literal spelling class',
        min_evaluations=500,
        assumptions=['v isEqualTo w as evaluated by the VM is the equality of (a)/(b) (its own laws are C07\'s subject)',
                     'python float() + struct give the nearest single-precision value of a decimal spelling'])


def _shape(lit):
    out = []
    for ch in lit:
        if ch.isdigit():
            c = 'd'
        elif ch.isalpha():
            c = 'a'
        elif ch in ' \t\n':
            continue
        else:
            c = ch
        if not out or out[-1] != c:
            out.append(c)
    return ''.join(out)[:40]


def replay(path):
    with open(path) as f:
        d = json.load(f)
    print(json.dumps(d['replay'])[:2000])
    return 1
