"""C02 - control structures execute the statements SQF semantics prescribe.
Generated programs are run by the real VM (ASan+UBSan build); the captured diag_log trace must equal the trace of
the reference interpreter over the same AST."""
import json
import random

from .. import core
from .. import sqfmodel as m

PROP = 'C02'

# generator features switched off for random exploration because they reach a recorded defect
AVOIDS = {
    'c02-scopename-in-loop': 'scopename-in-loop',
    'c05-breakout-leaks-operands': 'breakout-operands',
}


def avoid_set(chk):
    out = set()
    for e in chk.findings.open + core.Findings('C05').open:
        if e.get('avoid'):
            out.add(e['avoid'])
    return out


def vm_steps(src, mon=False):
    return [{'op': 'vm', 'vm': 0, 'max_runtime_ms': 100},
            {'op': 'run', 'vm': 0, 'src': src, 'path': '/vh/prog.sqf', 'mon': mon}]


def observe(step):
    logs = core.logs_of(step)
    trace = core.diag_values(logs)
    errs = [l for l in logs if 0 <= l[0] <= 1]
    return trace, errs


def compare(chk, prog, src, r, label, feats):
    if isinstance(r, core.Death):
        if r['kind'] == 'cpu-timeout':
            try:
                m.Interp(max_steps=100000).run_script(prog)
            except m.ModelDeclines:
                chk.inconclusive += 1   # the program itself is too long-running; not a verdict on the VM
                chk.count('long_running_program')
                return
            except Exception:
                pass
        chk.death_is_violation(r, 'program %s' % label, {'src': src})
        return
    st = r[-1]
    if 'exc' in st:
        chk.violation('escaped-exception', 'C++ exception escaped while running %s: %s' % (label, st['exc']), {'src': src})
        return
    it = m.Interp()
    try:
        res = it.run_script(prog)
    except m.ModelDeclines as e:
        chk.inconclusive += 1
        chk.count('model_declined')
        return
    except (RecursionError, TypeError, ValueError, IndexError) as e:
        chk.inconclusive += 1
        chk.count('model_type_error')
        return
    expected = [t[1] for t in it.trace]
    trace, errs = observe(st)
    chk.count('trace_events', len(trace))
    if errs:
        chk.violation('unexpected-error|' + errs[0][2].split('\t')[-1][:40], 'error-free program %s raised: %s' % (label, errs[0][2][:300]),
                      {'src': src, 'errors': [e[2] for e in errs[:5]], 'expected_trace': expected, 'observed_trace': trace})
        return
    if trace != expected:
        k = 0
        while k < len(trace) and k < len(expected) and trace[k] == expected[k]:
            k += 1
        chk.violation('trace-mismatch|' + '+'.join(sorted(feats))[:60],
                      'trace of %s differs from the reference at event %d: expected %s, observed %s' % (
                          label, k, expected[k] if k < len(expected) else '<end>', trace[k] if k < len(trace) else '<end>'),
                      {'src': src, 'expected_trace': expected, 'observed_trace': trace, 'first_difference': k})
        return
    if st.get('r') not in ('empty', 'ok'):
        chk.violation('bad-result', 'error-free program %s ended with result %s' % (label, st.get('r')), {'src': src})


def gen_programs(n, tier, avoid, salt='c02'):
    progs = []
    for i in range(n):
        rng = core.rng(salt, i)
        g = m.Gen(rng, max_depth=4 if tier == 'quick' else 6, max_stmts=rng.choice([10, 20, 40]) if tier == 'quick' else rng.choice([20, 40, 80]), avoid=avoid)
        p = g.program()
        progs.append((p, g))
    return progs


PROBES = {
    'c02-scopename-in-loop': '{ scopeName "s"; diag_log str [1, _x] } forEach [1,2]; diag_log str [2, 0]',
}


def probes(chk, runner):
    for e in chk.findings.open:
        src = e.get('probe')
        if not src:
            continue
        r = runner.run([{'steps': vm_steps(src)}])[0]
        chk.count('probes')
        bad = isinstance(r, core.Death)
        if not bad:
            trace, errs = observe(r['res'][-1])
            bad = bool(errs) or trace != e.get('expect_trace', trace)
        if bad:
            chk.known(e['id'])
        else:
            chk.notes.append('known finding %s no longer reproduces' % e['id'])
    for e in chk.findings.fixed:
        src = e.get('probe')
        if not src:
            continue
        r = runner.run([{'steps': vm_steps(src)}])[0]
        chk.count('probes')
        if isinstance(r, core.Death):
            chk.violation('regressed:' + e['id'], 'fixed finding %s regressed (worker died)' % e['id'], {'src': src})
            continue
        trace, errs = observe(r['res'][-1])
        if errs or ('expect_trace' in e and trace != e['expect_trace']):
            chk.violation('regressed:' + e['id'], 'fixed finding %s regressed: trace %s errors %s' % (e['id'], trace, [x[2] for x in errs[:2]]), {'src': src})


def main(tier):
    chk = core.Check(PROP, 'exploration', tier)
    runner = core.Runner('asan')
    avoid = avoid_set(chk)
    n = 6000 if tier == "quick" else 150000
    progs = gen_programs(n, tier, avoid)
    items = []
    for p, g in progs:
        items.append([{'op': 'run', 'vm': 0, 'src': m.emit_program(p), 'path': '/vh/prog.sqf', 'reset_ts': True}])
    probes(chk, runner)
    prefix = [{'op': 'vm', 'vm': 0, 'max_runtime_ms': 4000, 'auto_renew': True}]
    results = core.run_items(runner, prefix, items, batch=20, base_cpu_ms=5000, item_cpu_ms=lambda it: 3000, counters=chk.counters)
    allpairs = set()
    allfeats = set()
    for i, ((p, g), r) in enumerate(zip(progs, results)):
        chk.evaluations += 1
        chk.sig('|'.join(sorted(g.features)) + '#' + str(len(p)))
        allpairs |= g.pairs
        allfeats |= g.features
        src = m.emit_program(p)
        if i < 3:
            chk.sample(src[:1500])
        compare(chk, p, src, r, 'program #%d' % i, g.features)
    chk.counters['constructs_seen'] = sorted(allfeats)
    chk.counters['construct_pairs_seen'] = len(allpairs)
    return chk.finish(
        rule='random programs (nesting <= %d) over if/then/else, exitWith, while, for(step +-/fractional), forEach, count/select/apply/findIf with code, '
             'switch (fall-through, default), call (with/without argument), try/catch/throw, scopeName/breakOut (with/without value), lazy &&/||; '
             'each statement reports diag_log str [site, value]; distinct = distinct (construct set, size) signatures' % (4 if tier == 'quick' else 6),
        min_evaluations=200,
        assumptions=['reference interpreter vlib/sqfmodel.py is the oracle; loop constructs are used in statement position only (their value is not asserted)',
                     'avoid switches listed in coverage.avoid_switches keep random programs away from recorded defects'])


def replay(path):
    with open(path) as f:
        d = json.load(f)
    src = d['replay']['src']
    runner = core.Runner('asan', workers=1)
    r = runner.run([{'steps': vm_steps(src)}])[0]
    if isinstance(r, core.Death):
        print('worker died: %s' % r.get('kind'))
        return 1
    trace, errs = observe(r['res'][-1])
    print('observed trace: %s' % trace)
    print('expected trace: %s' % d['replay'].get('expected_trace'))
    print('errors: %s' % [e[2] for e in errs])
    return 1 if (errs or trace != d['replay'].get('expected_trace')) else 0
