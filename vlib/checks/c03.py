"""C03 - variable scoping: dynamic local lookup, private, namespaces, case-insensitivity.
Generated programs write fresh integers and read every pool variable at many points; the captured reads must equal
those of the reference scope-chain model (vlib/sqfmodel.py)."""
import json

from .. import core
from .. import sqfmodel as m
from . import c04

PROP = 'C03'


def judge(chk, prog, src, st, label, feats):
    if 'exc' in st:
        chk.violation('escaped-exception', 'C++ exception escaped in %s: %s' % (label, st['exc']), {'src': src})
        return
    try:
        it, outs = m.run_program(prog, strict_private=True)
    except m.ModelDeclines:
        chk.inconclusive += 1
        return
    logs = core.logs_of(st)
    errs = [l for l in logs if 0 <= l[0] <= 1]
    if errs:
        chk.violation('unexpected-error|' + errs[0][2].split('\t')[-1][:40], 'error-free program %s raised: %s' % (label, errs[0][2][:300]), {'src': src})
        return
    observed = core.diag_values(logs)
    chk.count('reads_observed', len(observed))
    expected = {}
    for site, text in it.trace:
        expected.setdefault(it.script_of_site[site], []).append(text)
    obs, unknown = c04.split_by_script(observed, it.script_of_site)
    if unknown:
        chk.violation('unexpected-statement', 'statement %s of %s ran although the reference never reaches it' % (unknown[0][:60], label), {'src': src, 'observed': observed})
        return
    for sid in sorted(set(list(expected) + list(obs))):
        e, o = expected.get(sid, []), obs.get(sid, [])
        if e != o:
            k = 0
            while k < len(e) and k < len(o) and e[k] == o[k]:
                k += 1
            chk.violation('scope-mismatch|' + '+'.join(sorted(feats))[:80], 'script %d of %s: read %d differs: expected %s, observed %s' % (
                sid, label, k, e[k] if k < len(e) else '<end>', o[k] if k < len(o) else '<end>'), {'src': src, 'expected': expected, 'observed': obs, 'script': sid, 'index': k})
            return
    if st.get('r') not in ('empty', 'ok'):
        chk.violation('bad-result', '%s ended with %s' % (label, st.get('r')), {'src': src})


def probes(chk, runner):
    for e in chk.findings.open + chk.findings.fixed:
        if not e.get('probe'):
            continue
        r = runner.run([{'steps': [{'op': 'vm', 'vm': 0, 'max_runtime_ms': 200}, {'op': 'run', 'vm': 0, 'src': e['probe']}]}])[0]
        chk.count('probes')
        bad = isinstance(r, core.Death) or core.diag_values(core.logs_of(r['res'][-1])) != e['expect_trace']
        if e['status'] == 'open':
            if bad:
                chk.known(e['id'])
            else:
                chk.notes.append('known finding %s no longer reproduces' % e['id'])
        elif bad:
            chk.violation('regressed:' + e['id'], 'fixed finding %s regressed' % e['id'], {'src': e['probe']})


def main(tier):
    chk = core.Check(PROP, 'exploration', tier)
    runner = core.Runner('asan')
    avoid = {e['avoid'] for e in chk.findings.open if e.get('avoid')}
    n = 4000 if tier == 'quick' else 100000
    progs = []
    for i in range(n):
        rng = core.rng('c03', i)
        g = m.GenScope(rng, max_depth=3 if tier == 'quick' else 5, max_stmts=rng.choice([10, 20, 35]), avoid=avoid)
        progs.append((g.program(), g))
    probes(chk, runner)
    # fresh VM per program: globals and namespaces must start empty
    items = [[{'op': 'vm', 'vm': 0, 'max_runtime_ms': 3000}, {'op': 'run', 'vm': 0, 'src': m.emit_program(p), 'path': '/vh/prog.sqf'}] for p, g in progs]
    results = core.run_items(runner, [], items, batch=12, base_cpu_ms=3000, item_cpu_ms=lambda it: 2500, counters=chk.counters)
    feats = set()
    for i, ((p, g), r) in enumerate(zip(progs, results)):
        chk.evaluations += 1
        chk.sig('|'.join(sorted(g.features)) + '#' + str(len(p)))
        feats |= g.features
        src = m.emit_program(p)
        if i < 3:
            chk.sample(src[:1500])
        if isinstance(r, core.Death):
            chk.death_is_violation(r, 'program #%d' % i, {'src': src})
            continue
        judge(chk, p, src, r[-1], 'program #%d' % i, g.features)
    chk.counters['features_seen'] = sorted(feats)
    return chk.finish(
        rule='random programs over 3 locals and 3 globals written with random letter case: plain/private assignment, private declarations, params (also with too few '
             'arguments), nested call/if/for/forEach/count/apply/while/exitWith scopes, spawned scripts, with-namespace blocks, get/setVariable; every write is a fresh '
             'integer and all pool variables are read back at many points; distinct = (feature set, size)',
        min_evaluations=200,
        assumptions=['reference scope-chain model in vlib/sqfmodel.py (innermost-out lookup, assignment to nearest holder else current scope, fresh map per loop iteration, '
                     'spawned scripts start with an empty chain, namespace of the innermost dynamically enclosing with-do)'])


def replay(path):
    with open(path) as f:
        d = json.load(f)
    src = d['replay']['src']
    runner = core.Runner('asan', workers=1)
    r = runner.run([{'steps': [{'op': 'vm', 'vm': 0, 'max_runtime_ms': 3000}, {'op': 'run', 'vm': 0, 'src': src}]}])[0]
    if isinstance(r, core.Death):
        print('worker died')
        return 1
    print('observed: %s' % core.diag_values(core.logs_of(r['res'][-1])))
    print('expected: %s' % json.dumps(d['replay'].get('expected')))
    return 1
