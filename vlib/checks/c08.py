"""C08 - arrays are shared references, copies are independent, and never cyclic.
A random operation history is applied to a Python heap model (lists with identity) and to the real VM; after every
step `str` of all live variables and the diagnostic class must agree. Cycle attempts must be refused, leaving the
container unchanged; non-termination shows as ASan stack overflow or CPU watchdog."""
import json

from .. import core
from ..sqfmodel import sqf_repr

PROP = 'C08'
NVARS = 5


class Heap:
    def __init__(self):
        self.vars = {}      # name -> list object (or number)
        self.val = 10

    def fresh(self):
        self.val += 1
        return self.val


def contains(container, target, seen=None):
    """does container reach target (identity) through nested lists?"""
    seen = seen or set()
    if id(container) in seen:
        return False
    seen.add(id(container))
    for x in container:
        if isinstance(x, list):
            if x is target or contains(x, target, seen):
                return True
    return False


def deep_copy(a):
    return [deep_copy(x) if isinstance(x, list) else x for x in a]


def has_nil(a):
    return any(v is None or (isinstance(v, list) and has_nil(v)) for v in a)


def struct_eq(a, b):
    if isinstance(a, list) and isinstance(b, list):
        return len(a) == len(b) and all(struct_eq(x, y) for x, y in zip(a, b))
    if isinstance(a, list) or isinstance(b, list):
        return False
    if a is None or b is None:
        return False
    return a == b


def gen_history(rng, n, avoid, feats):
    h = Heap()
    names = ['vh_a%d' % i for i in range(NVARS)]
    stmts = []
    expect = []   # per step: (error expected?, [str of each var])
    # initial arrays
    for i, nm in enumerate(names[:3]):
        a = [h.fresh() for _ in range(rng.randint(0, 4))]
        h.vars[nm] = a
        stmts.append(('%s = %s' % (nm, sqf_repr(a)), None))
    for nm in names[3:]:
        h.vars[nm] = [h.fresh()]
        stmts.append(('%s = %s' % (nm, sqf_repr(h.vars[nm])), None))

    def pick():
        return rng.choice(names)

    def elem(allow_ref=True):
        if allow_ref and rng.random() < 0.35:
            return rng.choice(names)
        return h.fresh()

    for step in range(n):
        x = pick()
        a = h.vars[x]
        op = rng.choice(['set', 'set', 'pushBack', 'pushBack', 'pushBackUnique', 'append', 'deleteAt', 'deleteRange', 'resize', 'reverse', 'sort', 'alias', 'wrap',
                         'copy', 'plus', 'minus', 'slice', 'apply', 'filter', 'setfar', 'setneg', 'selfinsert', 'indirect', 'nest'])
        err = False
        src = None
        if op == 'set' and a:
            i = rng.randint(0, len(a) - 1)
            e = elem()
            v = h.vars[e] if isinstance(e, str) else e
            src = '%s set [%d, %s]' % (x, i, e)
            if isinstance(v, list) and (v is a or contains(v, a)):
                err = True
            else:
                a[i] = v
            feats.add('set' + ('-ref' if isinstance(e, str) else ''))
        elif op == 'setfar':
            i = len(a) + rng.randint(0, 3)
            v = h.fresh()
            src = '%s set [%d, %d]' % (x, i, v)
            while len(a) < i:
                a.append(None)
            a.append(v)
            feats.add('set-grows')
        elif op == 'setneg':
            src = '%s set [%d, %d]' % (x, -rng.randint(1, 3), h.fresh())
            err = True
            feats.add('set-negative')
        elif op == 'pushBack':
            e = elem()
            v = h.vars[e] if isinstance(e, str) else e
            src = '%s pushBack %s' % (x, e)
            if isinstance(v, list) and (v is a or contains(v, a)):
                err = True
            else:
                a.append(v)
            feats.add('pushBack' + ('-ref' if isinstance(e, str) else ''))
        elif op == 'pushBackUnique':
            if a and rng.random() < 0.5 and not isinstance(a[0], list) and a[0] is not None:
                v = a[0]
            else:
                v = h.fresh()
            src = '%s pushBackUnique %s' % (x, sqf_repr(v))
            if not any(struct_eq(y, v) for y in a):
                a.append(v)
            feats.add('pushBackUnique')
        elif op == 'append':
            y = pick()
            b = h.vars[y]
            src = '%s append %s' % (x, y)
            if any(isinstance(z, list) and (z is a or contains(z, a)) for z in b):
                if 'append-cycle' in avoid:
                    continue
                err = True
            else:
                a.extend(list(b))
            feats.add('append')
        elif op == 'deleteAt' and a:
            i = rng.randint(0, len(a) - 1)
            src = '%s deleteAt %d' % (x, i)
            del a[i]
            feats.add('deleteAt')
        elif op == 'deleteRange' and len(a) >= 2:
            # [from, count]: only shapes on which "count" and the VM's "to index" reading agree (the statement does not say which is meant)
            if rng.random() < 0.5:
                i, k = rng.randint(1, len(a) - 1), 1
            else:
                i, k = 1, rng.randint(1, len(a) - 1)
            src = '%s deleteRange [%d, %d]' % (x, i, k)
            del a[i:i + k]
            feats.add('deleteRange')
        elif op == 'resize':
            k = rng.randint(0, len(a) + 2)
            src = '%s resize %d' % (x, k)
            if k <= len(a):
                del a[k:]
            else:
                a.extend([None] * (k - len(a)))
            feats.add('resize')
        elif op == 'reverse':
            src = 'reverse %s' % x
            a.reverse()
            feats.add('reverse')
        elif op == 'sort':
            if not a or any(isinstance(z, list) or z is None for z in a):
                continue
            asc = rng.random() < 0.5
            src = '%s sort %s' % (x, 'true' if asc else 'false')
            a.sort(reverse=not asc)
            feats.add('sort')
        elif op == 'alias':
            y = pick()
            src = '%s = %s' % (y, x)
            h.vars[y] = a
            feats.add('alias')
        elif op == 'wrap':
            y = pick()
            v = h.fresh()
            src = '%s = [%s, %d]' % (y, x, v)
            h.vars[y] = [a, v]
            feats.add('container-holds-reference')
        elif op == 'copy':
            y = pick()
            src = '%s = +%s' % (y, x)
            h.vars[y] = deep_copy(a)
            feats.add('deep-copy')
        elif op == 'plus':
            y, z = pick(), pick()
            src = '%s = %s + %s' % (y, x, z)
            h.vars[y] = list(a) + list(h.vars[z])
            feats.add('plus')
        elif op == 'minus':
            y, z = pick(), pick()
            b = h.vars[z]
            if has_nil(a) or has_nil(b):
                continue   # how nil elements compare is not part of the statement
            src = '%s = %s - %s' % (y, x, z)
            h.vars[y] = [v for v in a if not any(struct_eq(v, w) for w in b)]
            feats.add('minus')
        elif op == 'slice' and a:
            y = pick()
            i = rng.randint(0, len(a) - 1)
            k = rng.randint(0, len(a) - i)
            src = '%s = %s select [%d, %d]' % (y, x, i, k)
            h.vars[y] = a[i:i + k]
            feats.add('select-range')
        elif op == 'apply':
            y = pick()
            if any(v is None for v in a):
                continue
            src = '%s = %s apply {_x}' % (y, x)
            h.vars[y] = list(a)
            feats.add('apply')
        elif op == 'filter':
            y = pick()
            if any(v is None for v in a):
                continue
            src = '%s = %s select {true}' % (y, x)
            h.vars[y] = list(a)
            feats.add('select-filter')
        elif op == 'selfinsert':
            how = rng.choice(['pushBack', 'set', 'append', 'pushBackUnique'])
            if how == 'append' and 'append-cycle' in avoid:
                continue
            if how == 'pushBackUnique' and 'pushbackunique-cycle' in avoid:
                continue
            src = {'pushBack': '%s pushBack %s' % (x, x), 'set': '%s set [0, %s]' % (x, x), 'append': '%s append [%s]' % (x, x), 'pushBackUnique': '%s pushBackUnique %s' % (x, x)}[how]
            if how == 'set' and not a and 'set-grows-on-refusal' in avoid:
                continue
            err = True
            feats.add('cycle-direct-' + how)
        elif op == 'indirect':
            # a container that holds x is inserted into x
            holders = [nm for nm in names if h.vars[nm] is not a and contains(h.vars[nm], a)]
            if not holders:
                continue
            y = rng.choice(holders)
            how = rng.choice(['pushBack', 'set', 'append'])
            if how == 'append' and 'append-cycle' in avoid:
                continue
            if how == 'set' and not a:
                continue
            src = {'pushBack': '%s pushBack %s' % (x, y), 'set': '%s set [0, %s]' % (x, y), 'append': '%s append [%s]' % (x, y)}[how]
            err = True
            feats.add('cycle-indirect-' + how)
        elif op == 'nest':
            y = pick()
            b = h.vars[y]
            if b is a or contains(b, a) or not a:
                continue
            src = '%s set [%d, %s]' % (x, rng.randint(0, len(a) - 1), y)
            i = int(src.split('[')[1].split(',')[0])
            a[i] = b
            feats.add('nest')
        if src is None:
            continue
        stmts.append((src, err))
        expect.append((err, [sqf_repr(h.vars[nm]) for nm in names]))
    return names, stmts, expect


def build_source(names, stmts):
    lines = []
    k = 0
    for src, err in stmts:
        lines.append(src)
        if err is not None:
            lines.append('diag_log str [%d, %s]' % (k, ', '.join('str %s' % n for n in names)))
            k += 1
    return lines


def main(tier):
    chk = core.Check(PROP, 'exploration', tier)
    runner = core.Runner('asan')
    avoid = {e['avoid'] for e in chk.findings.open if e.get('avoid')}
    nh = 800 if tier == 'quick' else 50000
    hlen = 40 if tier == 'quick' else 80
    hist = []
    items = []
    for i in range(nh):
        rng = core.rng('c08', i)
        feats = set()
        names, stmts, expect = gen_history(rng, hlen, avoid, feats)
        hist.append((names, stmts, expect, feats))
        # every operation is its own run step so that its diagnostics can be told apart; state lives in globals of one VM
        steps = [{'op': 'vm', 'vm': 0, 'max_runtime_ms': 2000}]
        init = [s for s, e in stmts if e is None]
        steps.append({'op': 'run', 'vm': 0, 'src': '; '.join(init), 'nopp': True, 'reset_ts': True})
        for src, err in stmts:
            if err is None:
                continue
            steps.append({'op': 'run', 'vm': 0, 'src': src, 'nopp': True, 'reset_ts': True})
            steps.append({'op': 'run', 'vm': 0, 'src': 'diag_log str [%s]' % ', '.join('str %s' % n for n in names), 'nopp': True, 'reset_ts': True})
        items.append(steps)
    results = core.run_items(runner, [], items, batch=6, base_cpu_ms=4000, item_cpu_ms=lambda it: 300 * len(it), counters=chk.counters)
    allfeats = set()
    for i, ((names, stmts, expect, feats), r) in enumerate(zip(hist, results)):
        chk.evaluations += 1
        chk.sig('+'.join(sorted(feats)))
        allfeats |= feats
        ops = [s for s, e in stmts if e is not None]
        rep = {'history': [s for s, e in stmts]}
        if i < 2:
            chk.sample([s for s, e in stmts][:15])
        if isinstance(r, core.Death):
            k = r.get('step')
            at = ops[(k - 2) // 2] if (k is not None and 2 <= k < 2 * len(ops) + 2 and not r.get('seq_only')) else '?'
            chk.death_is_violation(r, 'history #%d died at `%s`' % (i, at), dict(rep, at=at), sig_prefix=at.split(' ')[1] if ' ' in at else at)
            continue
        pairs = list(zip(r[2::2], r[3::2]))
        for k, ((err, strs), (st, dump)) in enumerate(zip(expect, pairs)):
            chk.count('steps_compared')
            if 'exc' in st:
                chk.violation('escaped-exception|' + ops[k].split(' ')[1], 'C++ exception escaped at `%s`: %s' % (ops[k], st['exc']), dict(rep, at=ops[k]))
                break
            got_err = bool(core.error_logs(core.logs_of(st)))
            vals = core.diag_values(core.logs_of(dump))
            exp = sqf_repr(strs)
            opname = ops[k].split(' ')[1] if not ops[k].startswith('reverse') else 'reverse'
            if err and not got_err:
                chk.violation('not-refused|' + opname + ('|cycle' if 'cycle' in ' '.join(feats) else ''), 'history #%d step %d `%s` must be refused with a diagnostic but raised none; variables now %s' % (
                    i, k, ops[k], vals[:1]), dict(rep, at=ops[k], step=k))
                break
            if got_err and not err:
                chk.violation('unexpected-error|' + opname, 'history #%d step %d `%s` raised %s' % (i, k, ops[k], core.error_logs(core.logs_of(st))[0][2][:200]), dict(rep, at=ops[k], step=k))
                break
            if not vals or vals[-1] != exp:
                chk.violation('heap-mismatch|' + opname + ('|refused' if err else ''), 'history #%d step %d after `%s`: variables print %s, the heap model gives %s' % (
                    i, k, ops[k], vals[-1] if vals else '<nothing>', exp), dict(rep, at=ops[k], step=k, expected=exp, observed=vals[-1] if vals else None))
                break
    chk.counters['operations_seen'] = sorted(allfeats)
    for e in chk.findings.open + chk.findings.fixed:
        if not e.get('probe'):
            continue
        r = runner.run([{'steps': [{'op': 'vm', 'vm': 0, 'max_runtime_ms': 500}, {'op': 'run', 'vm': 0, 'src': e['probe'], 'nopp': True}], 'cpu_ms': 20000}])[0]
        bad = isinstance(r, core.Death) or core.diag_values(core.logs_of(r['res'][1])) != e['expect_trace']
        chk.count('probes')
        if e['status'] == 'open':
            if bad:
                chk.known(e['id'])
            else:
                chk.notes.append('known finding %s no longer reproduces' % e['id'])
        elif bad:
            chk.violation('regressed:' + e['id'], 'fixed finding %s regressed' % e['id'], {'src': e['probe']})
    return chk.finish(
        rule='histories of %d operations over %d variables referring to a heap of arrays with arbitrary aliasing: in-place operators (set incl. growth and negative index, pushBack, '
             'pushBackUnique, append, deleteAt, deleteRange, resize, reverse, sort), fresh-array operators (+a, a+b, a-b, select range, apply, select filter), aliasing and nesting, '
             'and direct/indirect self-insertion attempts through every inserting operator; distinct = set of operation kinds in the history' % (hlen, NVARS),
        min_evaluations=100,
        assumptions=['Python heap model (lists with identity); a rejected operation leaves every variable unchanged; only "error diagnostic or not" is compared, not its wording'])


def replay(path):
    with open(path) as f:
        d = json.load(f)
    print('\n'.join(d['replay']['history']))
    print(json.dumps({k: v for k, v in d['replay'].items() if k != 'history'})[:1500])
    return 1
