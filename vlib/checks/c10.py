"""C10 - front ends are total: any input yields a result or a diagnostic, never a crash.
Fault enumeration (truncations, single-token mutations, hostile constructions) of valid inputs; the oracle is
the sanitizer build + crash journal + CPU watchdog, plus 'result or error diagnostic' and determinism."""
import glob
import json
import os
import re

from .. import core

PROP = 'C10'
CORPUS = os.path.join(core.VERIF, 'corpus')

HOSTILE = ['//', '/*', '*/', '"', "'", '#line x', '#line 5', '#line', '#define QQZ QQZ\n', 'QQZ', '#define', '#include', '#include "nonexistent.hpp"',
           '#include "inc\\self.hpp"', '0x', '$', '1e', '1e+', '{', '}', '(', ')', '[', ']', '#', '##', '\\\n', '\x00', '\xff', '__LINE__', '__FILE__',
           '__EVAL(', '__EVAL(1+)', '#ifdef', '#ifdef X', '#ifndef', '#endif', '#else', '#undef', '#pragma', '#pragma x y', ';', ',', ':', '=', '+=', 'class', 'delete',
           'ADD(', 'ADD(1', 'ADD(1,2,3)', '/* c */', ' /* c */ ', ' \\\n', '// c\n', 'STR(', 'CAT(a', '\r', '\t', '\n#', '""', "''", '.', '-', '..', '1.2.3', '1e999', 'private', 'true', '&&', '||', '>>']


def load_corpus():
    files = []
    for pat, kind in (('sqf/*.sqf', 'sqf'), ('pp/*.sqf', 'pp'), ('cfg/*.cpp', 'cfg')):
        for f in sorted(glob.glob(os.path.join(CORPUS, pat))):
            files.append((kind, f, open(f, 'rb').read().decode('latin-1')))
    for f in sorted(glob.glob(os.path.join(core.REPO, 'tests', 'sqf', '*.sqf'))) + [os.path.join(core.REPO, 'tests', 'framework.sqf')]:
        files.append(('sqf', f, open(f, 'rb').read().decode('latin-1')))
    for f in sorted(glob.glob(os.path.join(core.REPO, 'tests', 'preprocess', '*.sqf'))):
        files.append(('pp', f, open(f, 'rb').read().decode('latin-1')))
    f = os.path.join(core.REPO, 'tests', 'config.cpp')
    files.append(('cfg', f, open(f, 'rb').read().decode('latin-1')))
    return files


TOKEN = re.compile(r'//[^\n]*|/\*.*?\*/|"(?:[^"]|"")*"|\'(?:[^\']|\'\')*\'|#[A-Za-z]+|[A-Za-z_][A-Za-z0-9_]*|\d+(?:\.\d+)?(?:[eE][+-]?\d+)?|0x[0-9a-fA-F]+|\s+|.', re.S)


def tokenize(text):
    return TOKEN.findall(text)


def specials():
    out = []
    out.append(('deep-curly', '{' * 3000))
    out.append(('deep-curly-balanced', '{' * 2000 + '}' * 2000))
    out.append(('deep-paren', '(' * 3000 + '1' + ')' * 3000))
    out.append(('deep-array', '[' * 3000 + ']' * 3000))
    out.append(('many-comment-lines', '// c\n' * 20000 + 'x = 1;'))
    out.append(('many-block-comments', '/* c */ ' * 5000 + 'x = 1;'))
    out.append(('long-string', 'x = "' + 'a' * 100000 + '";'))
    out.append(('long-ident', 'a' * 100000))
    out.append(('many-unary', 'x = ' + '- ' * 3000 + '1;'))
    out.append(('many-binary', 'x = 1' + ' + 1' * 3000 + ';'))
    out.append(('deep-class', ''.join('class C%d {' % i for i in range(1500)) + '};' * 1500))
    out.append(('deep-cfg-array', 'a[] = ' + '{' * 3000 + '}' * 3000 + ';'))
    out.append(('many-defines', ''.join('#define M%d M%d\n' % (i, i + 1) for i in range(400)) + 'x = M0;'))
    out.append(('exp-macro', '#define A0 x\n' + ''.join('#define A%d A%d A%d\n' % (i, i - 1, i - 1) for i in range(1, 16)) + 'y = A15;'))
    out.append(('nul-bytes', 'x = 1;\x00y = 2;\x00'))
    out.append(('only-hash', '#'))
    out.append(('define-eof', '#define'))
    out.append(('define-eof2', '#define A('))
    out.append(('macro-call-eof', '#define F(a,b) a b\nx = F(1,'))
    # comments, continuations and stray CRs at every argument boundary of a macro call
    seps = {'block': '/* c */', 'cont': '\\\n', 'cr': '\r', 'line': '// c\n', 'blockws': ' /* c */ ', 'contws': ' \\\n ', 'crlf': '\r\n'}
    for sname, sep in seps.items():
        for pos, call in (('after-open', 'PAIR(%s1,2)'), ('before-comma', 'PAIR(1%s,2)'), ('after-comma', 'PAIR(1,%s2)'), ('before-close', 'PAIR(1,2%s)'),
                          ('only-first', 'PAIR(%s,2)'), ('only-second', 'PAIR(1, %s)'), ('nested', 'PAIR(PAIR(1,%s),2)')):
            out.append(('macro-arg:%s:%s' % (sname, pos), '#define PAIR(A,B) [A,B]\nx = ' + call % sep + ';\ny = 3;\n'))
    # control characters inside #define bodies, names and parameter lists (a lone CR is not a line end)
    for cname, ch in (('cr', '\r'), ('tab', '\t'), ('vt', '\x0b'), ('ff', '\x0c'), ('nul', '\x00'), ('bs', '\\')):
        out.append(('define-body-%s' % cname, '#define A x%sy\nq = A;\nz = 1;\n' % ch))
        out.append(('define-body-end-%s' % cname, '#define A x%s\nq = A;\nz = 1;\n' % ch))
        out.append(('define-args-body-%s' % cname, '#define F(a) a%s+ a\nq = F(2);\nz = 1;\n' % ch))
        out.append(('define-params-%s' % cname, '#define F(a,%sb) a + b\nq = F(1,2);\nz = 1;\n' % ch))
        out.append(('code-%s' % cname, 'x = 1;%sy = 2;\n' % ch))
    # number-like fragments in every value position of the config and SQF grammars (a lexer that accepts a fragment hands it to stod/stof)
    for k, h in enumerate(['.', '-.', '+.', '..', '1.', '.5', '-', '+', '1e', '1e+', '1e-', '0x', '$', '1.2.3', '1e999', '-1e999', '0x1G', '5.', 'e5', '.e1', '-.e1', '1..2', '-']):
        out.append(('number-fragment:cfg-value:%d' % k, 'class A { x = %s; y = 2; };\n' % h))
        out.append(('number-fragment:cfg-array:%d' % k, 'class A { a[] = {0, %s, 1}; y = 2; };\n' % h))
        out.append(('number-fragment:sqf-value:%d' % k, 'x = %s;\ny = 2;\n' % h))
        out.append(('number-fragment:sqf-array:%d' % k, 'x = [0, %s, 1];\ny = 2;\n' % h))
    out.append(('callable-name-at-argument-end', '#define T(A) A A\n#define Q(A) A\nT(s-Q)\nT(Q)\nT(1, Q)\n'))
    out.append(('define-unterminated-string', '#define A "\nx = A;\n'))
    out.append(('define-unterminated-string-args', '#define A(x) x + " 1\ny = A(2);\nz = 3;\n'))
    out.append(('define-unterminated-single-quote', "#define A 'q\nx = A;\n"))
    out.append(('include-eof', '#include "'))
    out.append(('ifdef-eof', '#ifdef'))
    out.append(('line-eof', '#line'))
    out.append(('backslash-eof', 'x = 1 \\'))
    out.append(('crlf', 'x = 1;\r\n#define A 2\r\ny = A;\r\n'))
    out.append(('bom', '\xef\xbb\xbfx = 1;'))
    out.append(('empty', ''))
    out.append(('ws', ' \n\t\r\n'))
    return out


def gen_inputs(files, tier, rng):
    """list of (label, origin path, text)"""
    quick = tier == 'quick'
    inputs = []
    budget_trunc = 9000 if quick else 10 ** 9
    budget_mut = 9000 if quick else 10 ** 9
    total_len = sum(len(t) for _, _, t in files)
    for kind, path, text in files:
        inputs.append(('orig', path, text))
        # truncations: every prefix (thorough) or an even subsample (quick), always including positions next to token ends
        n = len(text)
        want = n if not quick else max(20, int(budget_trunc * n / total_len))
        if want >= n:
            cuts = range(1, n)
        else:
            cuts = sorted(set(rng.sample(range(1, n), want)))
        for c in cuts:
            inputs.append(('trunc@%d' % c, path, text[:c]))
        toks = tokenize(text)
        idx = [i for i, t in enumerate(toks) if not t.isspace()]
        wantm = len(idx) if not quick else max(8, int(budget_mut * n / total_len / 4))
        pick = idx if wantm >= len(idx) else sorted(rng.sample(idx, wantm))
        for i in pick:
            ops = ['del', 'dup', 'swap', 'other', 'host', 'host'] if quick else ['del', 'dup', 'swap', 'other'] + ['host'] * 6
            if quick:
                ops = rng.sample(ops, 3)
            for op in ops:
                t2 = list(toks)
                if op == 'del':
                    del t2[i]
                elif op == 'dup':
                    t2.insert(i, toks[i])
                elif op == 'swap':
                    j = idx[min(len(idx) - 1, idx.index(i) + 1)]
                    t2[i], t2[j] = t2[j], t2[i]
                elif op == 'other':
                    t2[i] = toks[rng.choice(idx)]
                else:
                    h = rng.choice(HOSTILE)
                    if rng.random() < 0.5:
                        t2[i] = h
                    else:
                        t2.insert(i, h + ('' if rng.random() < 0.5 else ' '))
                inputs.append(('%s@tok%d' % (op, i), path, ''.join(t2)))
    for name, text in specials():
        inputs.append(('special:' + name, os.path.join(CORPUS, 'pp', 'special.sqf'), text))
    return inputs


FRONTS = ['pp', 'parse_pp', 'parse_raw', 'cfg']


def steps_for(text, path, vm):
    return [
        {'op': 'pp', 'vm': vm, 'src': text, 'path': path},
        {'op': 'parse', 'vm': vm, 'src': text, 'path': path, 'pp': True},
        {'op': 'parse', 'vm': vm, 'src': text, 'path': path},
        {'op': 'cfg', 'vm': vm, 'src': text, 'path': path},
    ]


def script_steps(text, vm):
    lit = core.sqf_str(text)
    return [
        {'op': 'run', 'vm': vm, 'src': 'vh_r = compile ' + lit + '; vh_p = preprocess__ ' + lit + ';', 'reset_ts': True},
    ]


def has_error(step):
    return any(0 <= l[0] <= 1 for l in step.get('logs', []))


def strip(step):
    """what must be identical between two runs of the same input"""
    d = {k: v for k, v in step.items() if k in ('ok', 'pp', 'parsed', 'text', 'listing', 'n', 'r', 'exc')}
    d['logs'] = [[l[0], l[1], l[2]] for l in step.get('logs', [])]
    return d


def judge(chk, label, path, text, res, with_script):
    """res: step results for VM0 steps followed by VM1 steps"""
    nfront = len(FRONTS) + (1 if with_script else 0)
    a, b = res[:nfront], res[nfront:]
    base = {'label': label, 'path': path, 'text': text}
    for k, front in enumerate(FRONTS + (['script'] if with_script else [])):
        st = a[k]
        chk.count('front_end_runs')
        if 'exc' in st:
            sig = 'escaped-exception|%s|%s' % (front, st['exc'].split(':')[0][:50])
            hit = False
            for pat, e in chk.findings.signatures().items():
                if re.fullmatch(pat, sig):
                    chk.known_hits[e['id']] = e['what']
                    hit = True
            if not hit:
                chk.violation(sig, 'C++ exception escaped front end %s on input %s of %s: %s' % (front, label, os.path.basename(path), st['exc']), dict(base, front=front))
            continue
        if front == 'pp':
            failed = not st.get('ok')
        elif front in ('parse_pp', 'parse_raw'):
            failed = not st.get('pp', True) or not st.get('ok')
        elif front == 'cfg':
            failed = not st.get('pp', True) or not st.get('ok')
        else:
            failed = False
        if failed:
            chk.count('rejected')
            if not has_error(st):
                sig = 'silent-failure|' + front
                if not chk.known_by_sig(sig):
                    chk.violation(sig + '|' + label.split('@')[0], 'front end %s failed on input %s of %s without any error diagnostic' % (front, label, os.path.basename(path)), dict(base, front=front, step=st))
        else:
            chk.count('accepted')
        if strip(st) != strip(b[k]):
            sig = 'nondeterministic|' + front + ('|__COUNTER__' if '__COUNTER__' in text else '')
            if not chk.known_by_sig(sig):
                chk.violation(sig, 'front end %s gave different results for the same input %s of %s in two fresh VMs' % (front, label, os.path.basename(path)),
                              dict(base, front=front, first=strip(st), second=strip(b[k])))


def run_inputs(chk, runner, inputs, batch, script_every):
    prefix = [
        {'op': 'vm', 'vm': 0, 'maps': [[os.path.join(CORPUS, 'pp'), '/']], 'max_runtime_ms': 200, 'print_work': False},
        {'op': 'vm', 'vm': 1, 'maps': [[os.path.join(CORPUS, 'pp'), '/']], 'max_runtime_ms': 200, 'print_work': False},
    ]
    items = []
    flags = []
    for n, (label, path, text) in enumerate(inputs):
        ws = script_every and (n % script_every == 0) and len(text) < 20000
        st = steps_for(text, path, 0) + (script_steps(text, 0) if ws else []) + steps_for(text, path, 1) + (script_steps(text, 1) if ws else [])
        if label.startswith('special:'):
            st[0] = dict(st[0], special=True)
        items.append(st)
        flags.append(ws)

    def cpu(item):
        if item[0].get('special') and len(item[0]['src']) > 2000:
            return 60000     # the deep / long constructions; the small specials fall under the per-byte budget below
        ln = len(item[0]['src'])
        return 300 + ln * 0.02 * len(item)   # ms; far above the normal cost per byte and front end under ASan

    results = core.run_items(runner, prefix, items, batch=batch, base_cpu_ms=5000, item_cpu_ms=cpu, counters=chk.counters, max_deaths=(60 if chk.tier == 'quick' else 400))   # inputs that reach recorded defects die too; the cap only guards against a tree that is broken throughout
    for (label, path, text), ws, r, item in zip(inputs, flags, results, items):
        chk.evaluations += 1
        chk.sig(label.split('@')[0] + ':' + os.path.basename(path) + ':' + str(len(text)) + ':' + str(hash(text) & 0xffff))
        if isinstance(r, core.Death):
            k = r.get('step')
            front = '?'
            if k is not None:
                per = len(item) // 2
                # single re-run: step index is relative to prefix(2)
                kk = (k - 2) % per if k >= 2 else 0
                front = (FRONTS + ['script'])[kk] if kk < len(FRONTS) + 1 else '?'
            chk.death_is_violation(r, 'front end %s on input %s of %s (%d bytes)' % (front, label, os.path.basename(path), len(text)),
                                   {'label': label, 'path': path, 'text': text, 'front': front}, sig_prefix=front + (':' + label if label.startswith('special:') else ''), sig_suffix=front)
            continue
        judge(chk, label, path, text, r, ws)
    return results


def memcheck_pass(chk, inputs, results, tier):
    """a sample of the inputs the ASan pass completed, through the four front ends of an uninstrumented build under valgrind memcheck:
    decisions taken on bytes that were never written (short reads, partly filled buffers, members left unset by an early return) are
    invisible to ASan. Inputs that die in the ASan pass (recorded defects) are left out, so a death here is new information."""
    rng = core.rng('c10-memcheck')
    cand = [n for n, ((label, path, text), r) in enumerate(zip(inputs, results)) if not isinstance(r, core.Death) and len(text) <= 6000]
    rng.shuffle(cand)
    cand = sorted(cand[:(700 if tier == 'quick' else 20000)])
    prefix = [{'op': 'vm', 'vm': 0, 'maps': [[os.path.join(CORPUS, 'pp'), '/']], 'max_runtime_ms': 200, 'print_work': False}]
    items = [steps_for(inputs[n][2], inputs[n][1], 0) for n in cand]
    # recorded findings that only memcheck can see are replayed on every run (reported as KNOWN-FINDING while they reproduce)
    special = os.path.join(CORPUS, 'pp', 'special.sqf')
    for e in chk.findings.open:
        if e.get('probe_memcheck_cfg'):
            inputs = list(inputs) + [('probe:' + e['id'], special, e['probe_memcheck_cfg'])]
            cand = cand + [len(inputs) - 1]
            items.append([{'op': 'vm', 'vm': 0, 'maps': [[os.path.join(CORPUS, 'pp'), '/']], 'max_runtime_ms': 200, 'print_work': False}, {'op': 'cfg', 'vm': 0, 'src': e['probe_memcheck_cfg'], 'path': special}])
            chk.count('memcheck_probes')
    reports, deaths, n_run = core.run_memcheck(items, prefix_steps=prefix, batch=25, item_cpu_ms=400)
    chk.count('memcheck_inputs', n_run)
    chk.count('memcheck_reports', len(reports))
    for j, rep in reports:
        label, path, text = inputs[cand[j]]
        if not rep['file']:
            chk.count('memcheck_reports_outside_repo')
            chk.notes.append('memcheck report outside the repository sources: %s' % rep['head'][:300].replace('\n', ' / '))
            continue
        if chk.known_by_sig(rep['sig']):
            continue
        chk.violation(rep['sig'], 'valgrind memcheck on input %s of %s (%d bytes): %s in %s (%s)' % (label, os.path.basename(path), len(text), rep['kind'], rep['fn'], rep['file']),
                      {'label': label, 'path': path, 'text': text, 'memcheck': rep['head']})
    for j, d in deaths:
        # the same input completed under ASan: without a memcheck report there is nothing to decide on
        chk.inconclusive += 1
        chk.count('memcheck_deaths_without_report')


FAMILIES = {
    'sqf-statements': ('parse', lambda n: 'a = 1;\n' * n),
    'sqf-array-elements': ('parse', lambda n: 'x = [' + ','.join(['1'] * n) + '];'),
    'sqf-nested-code-siblings': ('parse', lambda n: 'x = {' + '{1};' * n + '};'),
    'sqf-strings': ('parse', lambda n: 'x = ["' + 'ab""cd' * n + '"];'),
    'cfg-entries': ('cfg', lambda n: 'class A {' + ''.join('v%d = %d;' % (i, i) for i in range(n)) + '};'),
    'cfg-classes': ('cfg', lambda n: ''.join('class C%d { v = 1; };' % i for i in range(n))),
    'cfg-array-elements': ('cfg', lambda n: 'class A { a[] = {' + ','.join(['1'] * n) + '}; };'),
    'pp-defines': ('pp', lambda n: ''.join('#define M%d %d\n' % (i, i) for i in range(n)) + 'x = M5;'),
    'pp-macro-uses': ('pp', lambda n: '#define M 1\n' + 'x = M;\n' * n),
    'pp-macro-args': ('pp', lambda n: '#define F(a,b) a b\n' + 'x = F(1,2);\n' * n),
    'pp-plain-lines': ('pp', lambda n: 'x = 1; // c\n' * n),
    'pp-ifdef-blocks': ('pp', lambda n: '#ifdef X\na\n#else\nb\n#endif\n' * n),
}


def scaling(chk, runner, tier):
    """Time proportional to the input: CPU time at n and 4n for repetition families of every front end."""
    n1, n2 = (1000, 4000) if tier == 'quick' else (2000, 8000)
    cases = []
    keys = []
    base = {'steps': [{'op': 'vm', 'vm': 0}], 'cpu_ms': 60000}
    cases.append(base)
    keys.append(('base', 0))
    for name, (op, gen) in sorted(FAMILIES.items()):
        for n in (n1, n2):
            cases.append({'steps': [{'op': 'vm', 'vm': 0}, {'op': op, 'vm': 0, 'src': gen(n), 'nolisting': True}], 'cpu_ms': 240000})
            keys.append((name, n))
    res = runner.run(cases, retry_timeouts=False)
    if isinstance(res[0], core.Death):
        chk.harness_errors.append('baseline VM creation died')
        return
    t0 = res[0]['cpu']
    tab = {}
    for (name, n), r in zip(keys[1:], res[1:]):
        tab.setdefault(name, {})[n] = None if isinstance(r, core.Death) else max(0.001, r['cpu'] - t0)
    rep = {}
    for name, d in sorted(tab.items()):
        chk.evaluations += 1
        chk.sig('scaling:' + name)
        a, b = d[n1], d[n2]
        rep[name] = [a, b]
        bad = None
        if a is None or b is None:
            bad = 'died or exceeded 240 s of CPU at n=%d/%d' % (n1, n2)
        elif b > 0.3 and b / a > 9.0:
            bad = 'CPU time grew %.1fx (%.2fs -> %.2fs) for 4x the input (n=%d -> %d)' % (b / a, a, b, n1, n2)
        if bad:
            sig = 'superlinear|' + name
            if not chk.known_by_sig(sig):
                chk.violation(sig, 'front end time is not proportional to the input for family %s: %s' % (name, bad), {'family': name, 'n': [n1, n2], 'cpu': [a, b]})
    chk.counters['scaling_cpu_s'] = {k: [None if x is None else round(x, 3) for x in v] for k, v in rep.items()}


def probes(chk, runner):
    items = [(e, 'open') for e in chk.findings.open if e.get('probe') is not None] + [(e, 'fixed') for e in chk.findings.fixed if e.get('probe') is not None]
    if not items:
        return
    inputs = [('probe:' + e['id'], os.path.join(CORPUS, 'pp', 'probe.sqf'), e['probe']) for e, _ in items]
    sub = core.Check(PROP, chk.level, chk.tier)
    for (e, kind), inp in zip(items, inputs):
        one = core.Check(PROP, chk.level, chk.tier)
        one.findings.open = []   # judge the probe without any suppression
        run_inputs(one, runner, [inp], 1, 1)
        chk.count('probes')
        if kind == 'open':
            if one.violations:
                chk.known(e['id'])
            else:
                chk.notes.append('known finding %s no longer reproduces with its probe' % e['id'])
        else:
            for v in one.violations:
                chk.violation('regressed:' + e['id'], 'fixed finding %s regressed: %s' % (e['id'], v[1]), v[2])
    del sub


def main(tier):
    chk = core.Check(PROP, 'fault_enumeration', tier)
    runner = core.Runner('asan')
    rng = core.rng('c10')
    files = load_corpus()
    chk.counters['corpus_files'] = len(files)
    inputs = gen_inputs(files, tier, rng)
    for lab, p, t in inputs[1:400:97]:
        chk.sample({'label': lab, 'file': os.path.basename(p), 'text': t[:200]})
    probes(chk, runner)
    scaling(chk, runner, tier)
    results = run_inputs(chk, runner, inputs, 40, 10 if tier == 'quick' else 4)
    memcheck_pass(chk, inputs, results, tier)
    return chk.finish(
        rule='inputs = corpus files (repo tests + corpus/), %s of each, single-token deletions/duplications/swaps/replacements (incl. hostile tokens) '
             'and hostile constructions (deep nesting, long runs, recursive macros/includes); each goes to the preprocessor, the SQF parser (raw and after '
             'preprocessing), the config parser and (subsample) compile/preprocess__ from a script, twice in two fresh VMs; distinct = distinct (mutation kind, file, text)' % (
                 'a spread of truncation points' if tier == 'quick' else 'every truncation point'),
        min_evaluations=1000,
        assumptions=['CPU budget per input is linear in its length (about 1000x the normal cost); exceeding it twice in a row is a hang',
                     'a rejected input must come with at least one error-level diagnostic; accepted inputs are not judged for meaning here'])


def replay(path):
    with open(path) as f:
        d = json.load(f)
    r = d['replay']
    chk = core.Check(PROP, 'fault_enumeration', 'quick')
    chk.findings.open = []
    runner = core.Runner('asan', workers=1)
    run_inputs(chk, runner, [(r.get('label', 'replay'), r['path'], r['text'])], 1, 1)
    for k, desc, _ in chk.violations:
        print('reproduced: ' + desc[:400])
    return 1 if chk.violations else 0
