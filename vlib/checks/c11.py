"""C11 - execution bounds: max runtime per run (measured from the start of that run), loop cap in unscheduled code.
All time is virtual (the harness interposes clock_gettime: every clock query advances 1 us, idle time is added explicitly),
so deadlines are decided on logical time. Run histories age the VM between runs."""
import json

from .. import core

PROP = 'C11'

# non-terminating / long-running programs; every loop body executes at least one instruction
LONG = {
    'while-scheduled': '[] spawn { vh_n = 0; while {true} do { vh_n = vh_n + 1 } }',
    'while-unscheduled-nocap': 'vh_n = 0; while {true} do { vh_n = vh_n + 1 }',
    'for-huge': 'vh_n = 0; for "_i" from 0 to 1e9 do { vh_n = vh_n + 1 }',
    'foreach-growing': 'vh_a = [1]; { vh_a pushBack _x } forEach vh_a',
    'recursion-call': 'vh_f = { vh_d = vh_d + 1; call vh_f }; vh_d = 0; call vh_f',
    'mutual-spawn': 'vh_f = { [] spawn vh_f; [] spawn vh_f; 1 }; [] spawn vh_f',
    'sleep-loop': '[] spawn { while {true} do { sleep 0.001 } }',
    'many-scripts': 'for "_k" from 1 to 30 do { [] spawn { while {true} do { vh_q = 1 } } }',
    'count-loop': '[] spawn { vh_a = []; vh_a resize 100; while {true} do { { true } count vh_a } }',
    'apply-nested': '[] spawn { while {true} do { [1,2,3] apply { [_x] apply { _x } } } }',
    'try-loop': '[] spawn { while {true} do { try { throw 1 } catch { 2 } } }',
}
SLEEP_BEYOND = {
    'sleep-long': '[] spawn { sleep 50 }',
}
SHORT = {
    'short-trace': 'diag_log str [1, 2]; vh_s = 0; for "_i" from 1 to 20 do { vh_s = vh_s + _i }; diag_log str [2, vh_s]',
    'short-spawn': '[] spawn { sleep 0.001; diag_log str [3, 1] }; diag_log str [4, 1]',
}
SHORT_TRACE = {'short-trace': ['[1,2]', '[2,210]'], 'short-spawn': ['[4,1]', '[3,1]']}
LIMITS = [5, 20, 100]
SLACK_MS = 3.0   # virtual: one instruction's clock queries plus one scheduler round are microseconds; 3 ms is generous


def judge_long(chk, name, L, st, label, replay):
    logs = core.logs_of(st)
    dur_ms = (st.get('t1', 0) - st.get('t0', 0)) / 1e6
    chk.count('long_runs')
    cut = [l for l in logs if l[1] == 60002]
    key = name + '|L=%d' % L
    if 'exc' in st:
        chk.violation('escaped-exception|' + name, 'C++ exception escaped in %s: %s' % (label, st['exc']), replay)
        return False
    if dur_ms > L + SLACK_MS:
        chk.violation('overrun|' + name, '%s ran for %.2f virtual ms with a limit of %d ms' % (label, dur_ms, L), dict(replay, duration_ms=dur_ms))
        return False
    if not cut:
        chk.violation('no-abort-diagnostic|' + name, '%s ended after %.2f ms without the time-limit diagnostic (result %s)' % (label, dur_ms, st.get('r')), dict(replay, duration_ms=dur_ms))
        return False
    if dur_ms < L - 0.5:
        chk.violation('cut-early|' + name, '%s was cut after %.2f virtual ms although the limit is %d ms' % (label, dur_ms, L), dict(replay, duration_ms=dur_ms))
        return False
    s = st['st']
    if s.get('nctx', 0) != 0 or s.get('state') != 'empty':
        chk.violation('not-empty-after-abort|' + name, 'after the time-limit abort of %s the VM is %s with %d scripts left' % (label, s.get('state'), s.get('nctx', 0)), replay)
        return False
    chk.counters.setdefault('max_overrun_us', 0)
    chk.counters['max_overrun_us'] = max(chk.counters['max_overrun_us'], int((dur_ms - L) * 1000))
    return True


def judge_short(chk, name, st, label, replay):
    logs = core.logs_of(st)
    chk.count('short_runs')
    if [l for l in logs if l[1] == 60002]:
        chk.violation('short-run-cut|' + name, '%s was cut by the time limit although its own duration is far below it' % label, dict(replay, logs=[l[2][:150] for l in logs[:6]]))
        return False
    errs = [l for l in logs if 0 <= l[0] <= 1]
    if errs or st.get('r') not in ('ok', 'empty'):
        chk.violation('short-run-failed|' + name, '%s failed: result %s, %s' % (label, st.get('r'), [e[2][:150] for e in errs[:2]]), replay)
        return False
    tr = core.diag_values(logs)
    if tr != SHORT_TRACE[name]:
        chk.violation('short-run-trace|' + name, '%s printed %s instead of %s' % (label, tr, SHORT_TRACE[name]), replay)
        return False
    return True


def loop_cases(avoid):
    out = []
    for cap in (1, 10, 10000, 0):
        for n in (0, 1, 5, 10, 11, 10001, 20001):
            for body in ('_j = _j + 1', '_j = _j + 1; [1,2] apply {_x}', ''):
                if cap == 0 and (n > 10001 or body == ''):
                    continue
                if body == '' and 'while-empty-body' in avoid:
                    continue
                out.append((cap, n, body, False))
    for n in (5, 20001):
        out.append((10, n, '_j = _j + 1', True))   # scheduled: the cap does not apply
    return out


def loop_src(cap, n, body, scheduled):
    core_ = '_i = 0; _j = 0; while { _i = _i + 1; _i <= %d } do { %s }; diag_log str [_i, _j]' % (n, body)
    return ('[] spawn { %s }' % core_) if scheduled else core_


def main(tier):
    chk = core.Check(PROP, 'exploration', tier)
    runner = core.Runner('asan')
    avoid = {e['avoid'] for e in chk.findings.open if e.get('avoid')}
    long_progs = dict(LONG)
    if 'sleep-beyond-limit' not in avoid:
        long_progs.update(SLEEP_BEYOND)
    cases = []
    meta = []
    # A. single long runs under every limit
    for name in sorted(long_progs):
        for L in LIMITS:
            cases.append({'steps': [{'op': 'vm', 'vm': 0, 'max_runtime_ms': L, 'loop_max': 0}, {'op': 'run', 'vm': 0, 'src': long_progs[name]}], 'cpu_ms': 40000})
            meta.append(('long', name, L))
    # B. histories: runs on one VM with virtual idle time in between
    nh = 150 if tier == 'quick' else 6000
    aged = 'aged-vm' not in avoid
    for h in range(nh):
        rng = core.rng('c11h', h)
        L = rng.choice(LIMITS)
        steps = [{'op': 'vm', 'vm': 0, 'max_runtime_ms': L, 'loop_max': 0}]
        plan = []
        for j in range(rng.randint(2, 5)):
            idle = rng.choice([0, L / 2.0, 2 * L, 100 * L]) if aged else 0
            if idle:
                steps.append({'op': 'clock', 'us': int(idle * 1000)})
            if rng.random() < 0.5 or (not aged and j > 0):
                name = rng.choice(sorted(SHORT))
                steps.append({'op': 'run', 'vm': 0, 'src': SHORT[name]})
                plan.append(('short', name, idle, len(steps) - 1))
                if not aged:
                    break
            else:
                name = rng.choice(sorted(long_progs))
                steps.append({'op': 'run', 'vm': 0, 'src': long_progs[name]})
                plan.append(('long', name, idle, len(steps) - 1))
                if 'run-after-abort' in avoid:
                    break
        cases.append({'steps': steps, 'cpu_ms': 60000})
        meta.append(('history', L, plan))
    # C. loop cap
    for (cap, n, body, scheduled) in loop_cases(avoid):
        cases.append({'steps': [{'op': 'vm', 'vm': 0, 'max_runtime_ms': 3000, 'loop_max': cap}, {'op': 'run', 'vm': 0, 'src': loop_src(cap, n, body, scheduled)}], 'cpu_ms': 120000})
        meta.append(('loop', cap, n, body, scheduled))
    # D. the limit as configured through the C API (seconds as float)
    for name in ('while-scheduled', 'for-huge', 'recursion-call'):
        for max_s in (0.005, 0.02, 0.4, 1.25):
            cases.append({'steps': [{'op': 'api_create', 'h': 0, 'kind': 'full', 'max_s': max_s, 'user': 1},
                                    {'op': 'api_call', 'h': 0, 'type': 's', 'code': LONG[name], 'call_data': 2}], 'cpu_ms': 60000})
            meta.append(('api', name, max_s))
    results = runner.run(cases, retry_timeouts=False)   # a run that exhausts its CPU budget is the violation this check looks for
    for mt, case, r in zip(meta, cases, results):
        chk.evaluations += 1
        replay = {'steps': case['steps']}
        if mt[0] == 'long':
            _, name, L = mt
            chk.sig('long|%s|%d' % (name, L))
            if isinstance(r, core.Death):
                chk.death_is_violation(r, 'long program %s with limit %d ms' % (name, L), replay, sig_prefix='run|' + name)
                continue
            judge_long(chk, name, L, r['res'][1], 'program %s (limit %d ms)' % (name, L), replay)
        elif mt[0] == 'api':
            _, name, max_s = mt
            chk.sig('api|%s|%g' % (name, max_s))
            if isinstance(r, core.Death):
                chk.death_is_violation(r, 'C API call of %s with max_runtime_seconds %g' % (name, max_s), replay, sig_prefix='api|' + name)
                continue
            st = r['res'][1]
            dur_ms = (st['t1'] - st['t0']) / 1e6
            cut = [c for c in st.get('cb', []) if 'runtime of' in c[3]]
            chk.count('api_runs')
            if dur_ms > max_s * 1000 + SLACK_MS:
                chk.violation('api-overrun', 'sqfvm_call of %s ran %.2f virtual ms with max_runtime_seconds %g' % (name, dur_ms, max_s), replay)
            elif not cut or dur_ms < max_s * 1000 - 1.5:
                chk.violation('api-limit-not-applied', 'sqfvm_call of %s with max_runtime_seconds %g ended after %.2f ms, time-limit diagnostic delivered: %s' % (name, max_s, dur_ms, bool(cut)), replay)
        elif mt[0] == 'history':
            _, L, plan = mt
            chk.sig('history|%d|%s' % (L, '|'.join('%s:%s:%g' % (k, n, i) for k, n, i, _ in plan)))
            if len(chk.samples) < 2:
                chk.sample({'limit_ms': L, 'runs': [(k, n, 'idle %g ms before' % i) for k, n, i, _ in plan]})
            if isinstance(r, core.Death):
                chk.death_is_violation(r, 'history %s' % plan, replay, sig_prefix='history')
                continue
            for j, (kind, name, idle, idx) in enumerate(plan):
                st = r['res'][idx]
                label = 'run %d (%s %s, after %g ms idle) of a history with limit %d ms' % (j, kind, name, idle, L)
                ok = judge_long(chk, name, L, st, label, replay) if kind == 'long' else judge_short(chk, name, st, label, replay)
                if not ok:
                    k, d, rep = chk.violations[-1]
                    pos = 'first' if j == 0 else ('after-abort' if plan[j - 1][0] == 'long' else 'after-ok')
                    chk.violations[-1] = ('history:%s|%s|idle=%s' % (k.split('|')[0], pos, 'yes' if idle else 'no'), d, rep)
                    break
        else:
            _, cap, n, body, scheduled = mt
            chk.sig('loop|%d|%d|%s|%s' % (cap, n, 'empty' if not body else 'body', scheduled))
            src = case['steps'][1]['src']
            if isinstance(r, core.Death):
                chk.death_is_violation(r, 'loop %s' % src, replay, sig_prefix='loop')
                continue
            st = r['res'][1]
            tr = core.diag_values(core.logs_of(st))
            chk.count('loop_runs')
            limit = n if (cap == 0 or scheduled) else min(n, cap)
            want_j = limit if body else 0
            if [l for l in core.logs_of(st) if l[1] == 60002] or len(tr) != 1:
                chk.violation('loop-not-bounded|%s' % ('empty-body' if not body else 'body'), 'loop `%s` with cap %d did not end by itself: %s' % (src, cap, tr), replay)
                continue
            i, j = [int(float(x)) for x in tr[0].strip('[]').split(',')]
            if j != want_j or not (limit <= i <= limit + 1):
                chk.violation('loop-iterations|cap=%d|%s' % (cap, 'scheduled' if scheduled else 'empty-body' if not body else 'body'),
                              'loop `%s` with cap %d evaluated its condition %d times and its body %d times; at most %d iterations are allowed (expected body count %d)' % (src, cap, i, j, limit, want_j), replay)
    # probes
    for e in chk.findings.open + chk.findings.fixed:
        if not e.get('probe_steps'):
            continue
        r = runner.run([{'steps': e['probe_steps'], 'cpu_ms': 120000}])[0]
        chk.count('probes')
        bad = isinstance(r, core.Death)
        if not bad:
            obs = []
            for st in r['res']:
                if 'r' in st:
                    obs.append({'cut': bool([l for l in core.logs_of(st) if l[1] == 60002]), 'trace': core.diag_values(core.logs_of(st)), 'over': (st['t1'] - st['t0']) / 1e6 > e.get('limit_ms', 1e9) + SLACK_MS})
            bad = obs != e['expect']
        if e['status'] == 'open':
            if bad:
                chk.known(e['id'])
            else:
                chk.notes.append('known finding %s no longer reproduces' % e['id'])
        elif bad:
            chk.violation('regressed:' + e['id'], 'fixed finding %s regressed: %s' % (e['id'], json.dumps(obs if not isinstance(r, core.Death) else 'died')[:300]), {'steps': e['probe_steps']})
    return chk.finish(
        rule='(A) %d kinds of non-terminating programs (loops of every kind, recursion through call, mutually spawning scripts, waitUntil, sleep loops) under limits %s ms of virtual time; '
             '(B) histories of 2-5 short/long runs on one VM with 0, L/2, 2L or 100L of idle time before each run; (C) while loops with caps 0/1/10/10000, condition counts around the cap, '
             'empty and non-empty bodies, unscheduled and scheduled; distinct = (program, limit) / history plan / loop shape' % (len(long_progs), LIMITS),
        min_evaluations=50,
        assumptions=['virtual clock: 1 us per clock query, so "within the limit plus a small slack" is decided on logical time (slack %.0f ms)' % SLACK_MS,
                     'each single operator call terminates (operators that never return are C09\'s subject)'])


def replay(path):
    with open(path) as f:
        d = json.load(f)
    runner = core.Runner('asan', workers=1)
    r = runner.run([{'steps': d['replay']['steps'], 'cpu_ms': 240000}])[0]
    if isinstance(r, core.Death):
        print('worker died: %s' % r['kind'])
        return 1
    for st in r['res']:
        if 'r' in st:
            print('result=%s duration=%.3f ms cut=%s trace=%s state=%s' % (st['r'], (st['t1'] - st['t0']) / 1e6, bool([l for l in core.logs_of(st) if l[1] == 60002]), core.diag_values(core.logs_of(st)), st['st']))
    return 1
