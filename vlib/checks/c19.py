"""C19 - execution control (start/step/stop/abort) follows its state machine, thread-safe.
Part A (ASan build, exhaustive up to a bound): every sequence of control actions from every base state (nothing loaded, loaded,
two scripts, halted after a step, finished, failed with an error), judged against the state machine and, for single scripts,
against the instruction trace of an uninterrupted run (steps neither skip nor repeat instructions).
Part B (TSan build): a controller thread plays action plans against an executing thread with yields injected at the failpoints
between the critical sections; monitors: guarded-region occupancy, instructions started after an exit request was visible,
ThreadSanitizer reports, stuck executors."""
import itertools
import json

from .. import core

PROP = 'C19'
ACTIONS = ['start', 'stop', 'abort', 'assembly_step', 'line_step', 'leave_scope']
R_OK, R_EMPTY, R_INVALID, R_ACTION_ERROR, R_RUNTIME_ERROR = 'ok', 'empty', 'invalid', 'action_error', 'runtime_error'

P_MAIN = '''vh_t = [];
vh_t pushBack 1; vh_t pushBack 2;
private _f = {
    vh_t pushBack 3;
    vh_t pushBack 4;
    5
};
private _r = call _f;
for "_i" from 0 to 2 do { vh_t pushBack (10 + _i) };
if (_r == 5) then {
    vh_t pushBack 20;
};
diag_log str vh_t;
'''
P_SECOND = 'vh_q = 1;\nvh_q = vh_q + 1;\ndiag_log str ["q", vh_q];\n'
P_FAIL = 'vh_e = [1];\nvh_e pushBack 2;\nvh_e pushBack (1 + "a");\ndiag_log "after";\n'
P_PROBE = 'diag_log "probe-ran";\n'

BASES = {
    'none': [],
    'loaded': [('load', P_MAIN)],
    'two': [('load', P_MAIN), ('load', P_SECOND)],
    'halted': [('load', P_MAIN), ('act', 'assembly_step')],
    'finished': [('load', P_MAIN), ('act', 'start')],
    'failed': [('load', P_FAIL), ('act', 'start')],
}


def steps_of(base, seq):
    steps = [{'op': 'vm', 'vm': 0, 'ops': 'basic', 'mon': {'trace': 4000}}]
    for kind, arg in BASES[base]:
        if kind == 'load':
            steps.append({'op': 'load', 'vm': 0, 'src': arg, 'nopp': True})
        else:
            steps.append({'op': 'act', 'vm': 0, 'a': arg})
    n_base = len(steps)
    for a in seq:
        steps.append({'op': 'act', 'vm': 0, 'a': a})
    # can the VM still be used? discard what is left, then run a fresh script
    steps.append({'op': 'act', 'vm': 0, 'a': 'abort'})
    steps.append({'op': 'load', 'vm': 0, 'src': P_PROBE, 'nopp': True})
    steps.append({'op': 'act', 'vm': 0, 'a': 'start', 'mon': True})
    return steps, n_base


def judge_sequence(chk, base, seq, res, n_base, ref_trace, replay, findings_avoid):
    """res: step results. returns False after the first violation"""
    def bad(key, msg, k=None):
        at = ('step %d (%s) of ' % (k, seq[k])) if k is not None else ''
        chk.violation(key, 'from state "%s", %ssequence %s: %s' % (base, at, list(seq), msg), replay)
        return False
    single = base in ('loaded', 'halted')
    # instructions of the script executed so far (base steps included)
    executed = 0
    for st in res[1:n_base]:
        if 'r' in st:
            executed += st.get('n', 0)
    state = res[n_base - 1]['st']['state'] if n_base > 1 else 'empty'
    finished = base in ('finished', 'none')
    aborted = False
    seg = []        # (action, first index, count) into the cumulative trace
    for k, a in enumerate(seq):
        st = res[n_base + k]
        if 'exc' in st:
            return bad('exception|' + a, 'exception escaped: %s' % st['exc'], k)
        r, n, after = st['r'], st.get('n', 0), st['st']
        chk.count('actions')
        if aborted and n != 0:
            return bad('runs-after-abort|' + a, '%s executed %d instructions of scripts that an earlier abort had discarded' % (a, n), k)
        if after['state'] not in ('empty', 'halted', 'halted_error'):
            return bad('state-after|%s|%s' % (a, after['state']), 'reported state is "%s" although no executor is running' % after['state'], k)
        if a == 'stop':
            if r != R_ACTION_ERROR or n != 0 or after['state'] != state:
                return bad('stop-idle', 'stop with no executor running returned %s, executed %d instructions, state %s -> %s' % (r, n, state, after['state']), k)
        elif a == 'abort':
            if state in ('halted', 'halted_error'):
                if r != R_OK or after['state'] != 'empty' or after['nctx'] != 0:
                    return bad('abort-halted', 'abort on a %s VM returned %s, state %s, %d scripts left' % (state, r, after['state'], after['nctx']), k)
                aborted = True
            else:
                if r != R_ACTION_ERROR or after['state'] != state:
                    return bad('abort-idle', 'abort on an %s VM returned %s, state -> %s' % (state, r, after['state']), k)
            if n != 0:
                return bad('abort-executes', 'abort executed %d instructions' % n, k)
        else:
            if r in (R_INVALID, R_ACTION_ERROR):
                return bad('result|%s|%s|from-%s' % (a, r, state), '%s returned %s with no other executor running (state before: %s, scripts: %d)' % (a, r, state, res[n_base + k - 1]['st']['nctx'] if n_base + k - 1 >= 1 and 'st' in res[n_base + k - 1] else -1), k)
            want_state = {R_OK: 'halted', R_EMPTY: 'empty', R_RUNTIME_ERROR: 'halted_error'}[r]
            if after['state'] != want_state:
                return bad('result-vs-state|%s' % a, '%s returned %s but the state is %s' % (a, r, after['state']), k)
            if a == 'assembly_step' and n > 1:
                return bad('assembly-step-many', 'assembly step executed %d instructions' % n, k)
            if single and not aborted and ref_trace is not None:
                left = len(ref_trace) - executed
                if a == 'assembly_step' and left > 0 and n != 1:
                    return bad('assembly-step-none', 'assembly step executed %d instructions with %d left to run' % (n, left), k)
                if a == 'start' and n != left:
                    return bad('start-incomplete', 'start executed %d instructions, %d were left' % (n, left), k)
                if a in ('line_step', 'leave_scope') and left > 0 and n == 0:
                    return bad('no-progress|' + a, '%s executed nothing with %d instructions left' % (a, left), k)
                if n > left:
                    return bad('too-many|' + a, '%s executed %d instructions, only %d were left' % (a, n, left), k)
                if a == 'line_step' and n > 0:
                    lines = {t[1] for t in ref_trace[executed:executed + n]}
                    nxt = ref_trace[executed + n][1] if executed + n < len(ref_trace) else None
                    first = ref_trace[executed][1]
                    if nxt is not None and nxt == first:
                        return bad('line-step-short', 'line step from line %d executed %d instructions and stopped before another instruction of line %d (%s)' % (first, n, first, ref_trace[executed + n][3]), k)
                    if lines != {first}:
                        frames = [t[4] for t in ref_trace[max(0, executed - 1):executed + n + 1]]
                        key = 'line-step-long|scope-exit' if any(y < x for x, y in zip(frames, frames[1:])) else 'line-step-long'
                        if len(lines) > 2:
                            # the recorded finding reaches into the caller's line (or, started exactly at a scope end, over the
                            # following line); a step that runs over more lines than that is something else
                            key = 'line-step-runs-on'
                        if not (key == 'line-step-long|scope-exit' and chk.known('c19-line-step-runs-into-callers-line')):
                            return bad(key, 'line step from line %d executed instructions of lines %s' % (first, sorted(lines)), k)
                if a == 'leave_scope' and n > 0 and executed + n < len(ref_trace):
                    d0 = ref_trace[executed][4]
                    d1 = ref_trace[executed + n][4]
                    if d0 > 1 and d1 >= d0 and not all(t[4] >= d0 for t in ref_trace[executed:executed + n]):
                        pass
                    if d0 > 1 and d1 >= d0 and min(t[4] for t in ref_trace[executed:executed + n + 1]) >= d0:
                        return bad('leave-scope-stays', 'leave scope from depth %d stopped at depth %d without having left the scope' % (d0, d1), k)
            executed += n
        state = after['state']
    # closing: abort, fresh script, start
    st_abort, st_load, st_start = res[n_base + len(seq)], res[n_base + len(seq) + 1], res[n_base + len(seq) + 2]
    if 'exc' in st_start or 'exc' in st_abort:
        return bad('exception|closing', 'exception escaped while closing: %s' % (st_start.get('exc') or st_abort.get('exc')))
    diag = core.diag_values(core.logs_of(st_start))
    if st_start['r'] not in (R_EMPTY,) and not (base == 'failed' or base == 'two'):
        return bad('unusable|' + st_start['r'], 'after the sequence (and abort) a fresh script was loaded and started: start returned %s, state %s' % (st_start['r'], st_start['st']['state']))
    if st_start['r'] in (R_INVALID, R_ACTION_ERROR) or 'probe-ran' not in diag:
        return bad('unusable|' + st_start['r'], 'after the sequence (and abort) a fresh script was loaded and started: start returned %s, the script %s' % (st_start['r'], 'ran' if 'probe-ran' in diag else 'did not run'))
    # exactly-once: the trace of the single script, cut where it was aborted, is a prefix of the reference trace
    if single and ref_trace is not None:
        trace = st_start.get('mon', {}).get('trace', [])
        mine = [t for t in trace if t[3] != 'PUSH "probe-ran"' and 'diag_log' not in t[3] or t[1] != 1]
        mine = [t[1:4] for t in trace][:executed]
        want = [t[1:4] for t in ref_trace][:executed]
        if mine != want:
            k = next((i for i in range(min(len(mine), len(want))) if mine[i] != want[i]), min(len(mine), len(want)))
            return bad('trace-diverges', 'instruction %d executed under stepping is %s, the uninterrupted run executes %s' % (k, mine[k] if k < len(mine) else None, want[k] if k < len(want) else None))
        if not aborted and executed == len(ref_trace):
            out = [d for s_ in res[n_base:n_base + len(seq)] for d in core.diag_values(core.logs_of(s_))]
            if base == 'loaded' and out != ['[1,2,3,4,10,11,12,20]']:
                return bad('output', 'the stepped run printed %s' % out)
    return True


# ---------------------------------------------------------------- part B: two threads
LONG_SCRIPTS = [
    ['vh_i = 0; while {true} do { vh_i = vh_i + 1; }'],
    ['for "_i" from 0 to 100000000 do { vh_a = _i }; diag_log "done"'],
    ['[] spawn { while {true} do { vh_b = 1 } }; while {true} do { vh_c = 2 }'],
    ['vh_f = { params ["_n"]; if (_n > 0) then { [_n - 1] call vh_f } else { 0 } }; while {true} do { [20] call vh_f }'],
    ['diag_log 1'],
    ['for "_i" from 0 to 400 do { vh_a = _i }; diag_log "short"'],
]


PARK_SCRIPT = ['for "_i" from 0 to 100000000 do { diag_log "VH_PARK"; vh_i = _i }']


def gen_park_plan(rng):
    """the executor sits inside one long instruction while the controller issues several actions"""
    plan = [{'a': 'wait_parked'}]
    for _ in range(rng.randint(1, 4)):
        plan.append({'a': rng.choice(['stop', 'abort', 'start', 'assembly_step', 'line_step', 'leave_scope', 'stop', 'abort']), 'at': 0})
    plan.append({'a': 'release'})
    if rng.random() < 0.4:
        plan += [{'a': 'wait_parked'}, {'a': rng.choice(['stop', 'abort', 'start']), 'at': 0}, {'a': 'release'}]
    return plan


def gen_plan(rng):
    n = rng.randint(1, 6)
    plan = []
    for _ in range(n):
        a = rng.choice(['stop', 'abort', 'stop', 'abort', 'assembly_step', 'line_step', 'leave_scope', 'start'])
        at = rng.choice([0, 0, 1, 7, 50, 151, 500, 3000])
        if a not in ('stop', 'abort'):
            # an action that can take the guard is only issued once the executor has run an instruction (and so holds it):
            # were the controller to win the race at the very start, it would itself run the never-ending script
            at = max(at, 1)
        plan.append({'a': a, 'at': at})
    return plan


def run_concurrent(chk, tier):
    runner = core.Runner('tsan', workers=8)
    n = 200 if tier == 'quick' else 4000
    cases, meta = [], []
    for i in range(n):
        rng = core.rng('c19b', i)
        park = rng.random() < 0.4
        scripts = PARK_SCRIPT if park else rng.choice(LONG_SCRIPTS)
        plan = gen_park_plan(rng) if park else gen_plan(rng)
        cases.append({'steps': [{'op': 'vm', 'vm': 0, 'ops': 'basic'},
                                {'op': 'concurrent', 'vm': 0, 'scripts': scripts, 'plan': plan, 'yield': True, 'park': park, 'fp_seed': core.seed() * 1000003 + i, 'stuck_s': 20},
                                {'op': 'act', 'vm': 0, 'a': 'abort'}, {'op': 'load', 'vm': 0, 'src': P_PROBE, 'nopp': True}, {'op': 'act', 'vm': 0, 'a': 'start'}],
                      'cpu_ms': 120000, 'journal_steps': True})
        meta.append((scripts, plan))
    results = runner.run(cases, retry_timeouts=False)
    interleavings = set()
    for i, ((scripts, plan), r) in enumerate(zip(meta, results)):
        chk.evaluations += 1
        replay = {'scripts': scripts, 'plan': plan, 'seed_index': i}
        desc = 'executor running %r, controller plan %s' % (scripts[0][:50], [(p['a'], p.get('at')) for p in plan])
        if isinstance(r, core.Death):
            chk.death_is_violation(r, desc, replay, sig_prefix='concurrent', sig_suffix='concurrent')
            continue
        st = r['res'][1]
        if 'harness_error' in st:
            chk.harness_errors.append(st['harness_error'])
            continue
        chk.count('concurrent_runs')
        chk.count('controller_actions', len(st['plan']))
        chk.count('failpoints_hit', st['failpoints'])
        interleavings.add(tuple((p['a'], p.get('r'), p['done_before']) for p in st['plan']))
        chk.sig('conc|' + '|'.join('%s:%s:%s' % (p['a'], p.get('r'), int(p['done_before'])) for p in st['plan']))
        if any(p.get('parked') for p in st['plan']):
            chk.count('episodes_with_parked_executor')
        for t in r.get('tsan', []):
            chk.count('tsan_reports')
            if not chk.known_by_sig(t['sig']):
                chk.violation(t['sig'], '%s: %s\n%s' % (t['sig'], desc, t['head'][:1500]), dict(replay, tsan=t['head']))
        if st['stuck']:
            chk.violation('stuck-executor', 'the executing thread did not return within 20 s of repeated abort requests: ' + desc, replay)
            continue
        if st.get('accepted_stop'):
            chk.count('accepted_stops')
            first = next(p for p in st['plan'] if p['a'] in ('stop', 'abort') and p.get('r') == 0 and not p['done_before'])
            ran_on = st['exec_instr'] - first['instr_after'] if st['exec_instr'] >= 0 else st['instr_at_grace_end'] - first['instr_after']
            chk.counters['max_instructions_after_accepted_stop'] = max(chk.counters.get('max_instructions_after_accepted_stop', 0), ran_on)
            if ran_on > 200:
                chk.violation('stop-not-effective', 'a stop/abort was accepted (returned ok while the executor ran) but the executor went on for %d more instructions: %s; outcomes %s' % (
                    ran_on, desc, [(p['a'], p.get('r')) for p in st['plan']]), replay)
            elif not st['done_without_help']:
                chk.violation('stop-not-effective', 'a stop/abort was accepted (returned ok while the executor ran) but the executor kept running (%d instructions by the end of the grace period) until it was aborted again: %s; outcomes %s' % (
                    st['instr_at_grace_end'], desc, [(p['a'], p.get('r')) for p in st['plan']]), replay)
        if st['max_owners'] > 1:
            chk.violation('two-executors', '%d threads were inside the guarded region of execute() at once: %s' % (st['max_owners'], desc), replay)
        if st['after_flag_max'] > 2:
            chk.violation('late-stop', '%d instructions were started after the exit request was visible to the executor: %s' % (st['after_flag_max'], desc), replay)
        if 'exc' in st:
            chk.violation('exception|concurrent', 'exception escaped: %s; %s' % (st['exc'], desc), replay)
        # (whether a controller action may enter is judged by the occupancy of the guarded region alone: the harness' own
        #  'executor returned' flag lags the release of the guard, so return codes cannot be lined up with it)
        # afterwards the VM must take a fresh script
        fin = r['res'][4]
        if fin.get('r') in ('invalid', 'action_error') or 'probe-ran' not in core.diag_values(core.logs_of(fin)):
            chk.violation('unusable-after-concurrent|' + str(fin.get('r')), 'after the two-thread episode a fresh script was started: start returned %s, state %s: %s' % (fin.get('r'), fin.get('st', {}).get('state'), desc), replay)
    chk.counters['distinct_controller_outcomes'] = len(interleavings)


def main(tier):
    chk = core.Check(PROP, 'exploration', tier)
    runner = core.Runner('asan')
    avoid = {e['avoid'] for e in chk.findings.open if e.get('avoid')}
    # reference trace of the single script
    ref = runner.run([{'steps': [{'op': 'vm', 'vm': 0, 'ops': 'basic', 'mon': {'trace': 4000}}, {'op': 'load', 'vm': 0, 'src': P_MAIN, 'nopp': True}, {'op': 'act', 'vm': 0, 'a': 'start', 'mon': True}]}])[0]
    if isinstance(ref, core.Death) or ref['res'][2]['r'] != 'empty':
        chk.harness_errors.append('reference run of the stepping script failed')
        return chk.finish('n/a')
    ref_trace = ref['res'][2]['mon']['trace']
    L = 3 if tier == 'quick' else 5
    items, meta = [], []
    for base in BASES:
        for ln in range(1, L + 1):
            for seq in itertools.product(ACTIONS, repeat=ln):
                if ln == 5 and base not in ('loaded', 'halted'):
                    continue
                steps, n_base = steps_of(base, seq)
                items.append(steps)
                meta.append((base, seq, n_base))
    # every halt position of the script (k assembly steps, k = 0 .. length of the reference trace) followed by each stepping
    # action: halting exactly at the end of a scope is a position pure line stepping never reaches
    for k in range(len(ref_trace) + 2):
        for a_ in ('line_step', 'leave_scope'):
            seq = tuple(['assembly_step'] * k + [a_, 'line_step', 'assembly_step', 'line_step'])
            steps, n_base = steps_of('loaded', seq)
            items.append(steps)
            meta.append(('loaded', seq, n_base))
    # long random walks (the exhaustive part never gets past the first lines of the script)
    for i in range(300 if tier == 'quick' else 6000):
        rng = core.rng('c19a', i)
        base = rng.choice(['loaded', 'loaded', 'halted', 'two'])
        w = rng.choice([[8, 1, 1], [1, 8, 1], [1, 1, 8], [3, 3, 3]])
        seq = []
        for _ in range(rng.randint(6, 40)):
            x = rng.random()
            if x < 0.9:
                seq.append(rng.choices(['assembly_step', 'line_step', 'leave_scope'], weights=w)[0])
            else:
                seq.append(rng.choice(['stop', 'abort', 'start']))
        seq = tuple(seq)
        steps, n_base = steps_of(base, seq)
        items.append(steps)
        meta.append((base, seq, n_base))
    results = core.run_items(runner, [], items, batch=30, base_cpu_ms=5000, item_cpu_ms=lambda it: 150, counters=chk.counters, max_deaths=40)
    for (base, seq, n_base), steps, r in zip(meta, items, results):
        chk.evaluations += 1
        chk.sig('%s|%s' % (base, ''.join({'start': 'S', 'stop': 'P', 'abort': 'A', 'assembly_step': 'a', 'line_step': 'l', 'leave_scope': 'v'}[a] for a in seq)))
        replay = {'base': base, 'sequence': list(seq), 'steps': steps}
        if isinstance(r, core.Death):
            k = r.get('step')
            at = seq[k - n_base] if k is not None and n_base <= k < n_base + len(seq) else '?'
            chk.death_is_violation(r, 'from state "%s", sequence %s, at %s' % (base, list(seq), at), replay, sig_prefix='seq|%s|%s' % (base, at), sig_suffix='%s|%s' % (base, at))
            continue
        judge_sequence(chk, base, seq, r, n_base, ref_trace, replay, avoid)
    chk.counters['reference_trace_len'] = len(ref_trace)
    run_concurrent(chk, tier)
    return chk.finish(
        rule='A: all sequences over {start, stop, abort, assembly step, line step, leave scope} up to length %d from 6 base states (length 5 only from loaded/halted), each followed by abort + fresh script + start; '
             'B: two-thread episodes (executor in start on long-running scripts, controller plan of 1-6 actions placed by executed-instruction count, yields injected at 5 failpoints) under ThreadSanitizer; distinct = base state + sequence / controller outcome' % L,
        min_evaluations=200, exhaustive=False,
        assumptions=['reset_run_atomic is the documented escape hatch after an exception and is not part of the plans', 'breakpoints and evaluate_expression are not exercised',
                     'stepping oracles that need an instruction count (exactly-once, line step) are applied to the single-script states; the two-script state is judged by the state machine only'])


def replay(path):
    with open(path) as f:
        d = json.load(f)
    print(json.dumps(d['replay'], indent=1)[:3000])
    return 1
