"""C14 - diagnostics name the true source file, line (and column) of the culprit.
A generated layout (comments, defines, conditional sections, nested includes, CRLF/LF) precedes a culprit planted at a
known file/line/column: a parse error, a runtime error (with its stack trace) or a __LINE__/__FILE__ probe. The position
the VM reports must be the planted one; the line/column conventions are calibrated on a bare one-line file."""
import json
import os
import shutil

from .. import core

PROP = 'C14'

CULPRITS = {
    # kind: (text, offset of the token the diagnostic points at)
    'runtime-select': ('[1] select 9;', 4),
    'runtime-unary': ('toUpper 5;', 0),
    'runtime-binary': ('1 + "a";', 2),
    'parse-paren': ('x = 1 );', 6),
    'parse-bracket': ('y = [1, 2;', 9),
    'line-macro': ('diag_log str [__LINE__, __FILE__];', 0),
}


class Layout:
    def __init__(self, rng, root, avoid, crlf):
        self.rng = rng
        self.root = root
        self.avoid = avoid
        self.files = {}
        self.feats = set()
        self.n = 0
        self.crlf = crlf

    def element(self, depth, path):
        """returns list of source lines"""
        r = self.rng
        c = r.random()
        if c < 0.18:
            self.feats.add('code')
            return ['v%d = %d;' % (r.randint(0, 9), r.randint(0, 99)) for _ in range(r.randint(1, 3))]
        if c < 0.28:
            self.feats.add('blank')
            return [''] * r.randint(1, 3)
        if c < 0.4:
            self.feats.add('line-comment')
            return ['// comment %d' % i for i in range(r.randint(1, 3))]
        if c < 0.55:
            k = r.randint(1, 5)
            body = [r.choice(['', 'text', '  more text', '', '* star']) for _ in range(k)]
            if '' in body:
                self.feats.add('block-comment-with-empty-line')
            self.feats.add('block-comment')
            if r.random() < 0.3:
                return ['v1 = 2; /* starts here'] + body + ['ends */ v3 = 4;']
            return ['/*'] + body + ['*/']
        if c < 0.65:
            self.feats.add('define')
            return ['#define M%d %d' % (self._n(), r.randint(0, 9))]
        if c < 0.72 and 'multi-line-define' not in self.avoid:
            k = r.randint(1, 3)
            self.feats.add('multi-line-define')
            return ['#define ML%d(a) a + \\' % self._n()] + ['    %d + \\' % i for i in range(k - 1)] + ['    0']
        if c < 0.76 and 'continuation-in-code' not in self.avoid:
            self.feats.add('continuation-in-code')
            return ['w = 1 + \\', '    2;']
        if c < 0.80:
            # macros are also *used* before the culprit: on one line, and as an invocation spread over several lines
            # (line ends after the opening bracket, after a comma, inside an argument, before the closing bracket)
            k = self._n()
            if r.random() < 0.35:
                self.feats.add('macro-use-one-line')
                return ['#define US%d(a,b) (a + b)' % k, '#define UO%d 5' % k, 'u%d = US%d(1, UO%d) + UO%d;' % (k, k, k, k)]
            shape = r.choice(['after-open', 'after-comma', 'inside-argument', 'before-close', 'several'])
            self.feats.add('macro-use-multi-line:' + shape)
            d = '#define UM%d(a,b) (a + b)' % k
            if shape == 'after-open':
                return [d, 'u%d = UM%d(' % (k, k), '    1, 2);']
            if shape == 'after-comma':
                return [d, 'u%d = UM%d(1,' % (k, k), '    2);']
            if shape == 'inside-argument':
                return [d, 'u%d = UM%d((1 +' % (k, k), '    3), 2);']
            if shape == 'before-close':
                return [d, 'u%d = UM%d(1, 2' % (k, k), '    );']
            return [d, 'u%d = UM%d(' % (k, k), '    1,', '', '    (2 +', '    3)', ');']
        if c < 0.88:
            active = r.random() < 0.5
            self.feats.add('conditional-' + ('active' if active else 'inactive'))
            name = 'M_NOT_DEFINED' if not active else 'M_DEF%d' % self._n()
            pre = [] if not active else ['#define %s' % name]
            inner = ['z%d = %d;' % (i, i) for i in range(r.randint(0, 3))]
            alt = ['q%d = %d;' % (i, i) for i in range(r.randint(0, 2))]
            out = pre + ['#ifdef ' + name] + inner
            if r.random() < 0.5:
                out += ['#else'] + alt
                self.feats.add('else')
            return out + ['#endif']
        if depth < 3:
            inc = 'inc%d.hpp' % self._n()
            sub = r.choice(['', 'sub'])
            ipath = os.path.normpath(os.path.join(os.path.dirname(path), sub, inc))
            lines = []
            for _ in range(r.randint(0, 3)):
                lines += self.element(depth + 1, ipath)
            self.files[ipath] = lines
            self.feats.add('include-depth-%d' % (depth + 1))
            return ['#include "%s"' % ((sub + '\\' if sub else '') + inc)]
        return ['v = 0;']

    def _n(self):
        self.n += 1
        return self.n


def build_case(i, tier, avoid, root):
    rng = core.rng('c14', i)
    crlf = rng.random() < 0.25
    lay = Layout(rng, root, avoid, crlf)
    main = os.path.join(root, 'main.sqf')
    lines = []
    for _ in range(rng.randint(0, 6)):
        lines += lay.element(0, main)
    kind = sorted(CULPRITS)[i % len(CULPRITS)]
    text, off = CULPRITS[kind]
    indent = rng.choice([0, 0, 1, 2, 4, 7])
    # where does the culprit go: end of main, inside an include, or in main right after an include returned
    where = rng.choice(['main', 'main', 'include', 'after-include'])
    target = main
    if where == 'include' and lay.files:
        target = rng.choice(sorted(lay.files))
        tl = lay.files[target]
        pos = len(tl)
        tl.append(' ' * indent + text)
        line_no = pos + 1
        lay.feats.add('culprit-in-include')
    else:
        if where == 'after-include':
            inc = 'last%d.hpp' % i
            ipath = os.path.join(root, inc)
            lay.files[ipath] = lay.element(1, ipath) if rng.random() < 0.7 else []
            lines.append('#include "%s"' % inc)
            lay.feats.add('culprit-after-include-returns')
        for _ in range(rng.randint(0, 2)):
            lines += lay.element(0, main)
        lines.append(' ' * indent + text)
        line_no = len(lines)
    tail = ['t = 1;'] if rng.random() < 0.3 and kind.startswith('runtime') and target == main else []
    lines += tail
    eol = '\r\n' if crlf else '\n'
    files = {main: eol.join(lines) + eol}
    for p, l in lay.files.items():
        files[p] = eol.join(l) + (eol if l else '')
    if crlf:
        lay.feats.add('crlf')
    return {'kind': kind, 'files': files, 'main': main, 'target': target, 'line': line_no, 'col': indent + off, 'feats': lay.feats, 'indent': indent}


def observe(kind, st):
    """returns list of (what, line, col, path) reported by the VM"""
    logs = core.logs_of(st)
    out = []
    if kind.startswith('runtime'):
        for l in logs:
            if l[0] == 1:
                out.append(('error', l[3], l[4], l[5]))
                break
        for l in logs:
            if l[1] == 60001:
                out.append(('stacktrace', l[3], l[4], l[5]))
                break
    elif kind.startswith('parse'):
        for l in logs:
            if l[0] == 1:
                out.append(('parse-error', l[3], l[4], l[5]))
                break
    else:
        vals = core.diag_values(logs)
        if vals:
            inner = vals[0].strip('[]')
            ln, fl = inner.split(',', 1)
            out.append(('__LINE__', int(float(ln)), None, fl.strip('"')))
    return out


def main(tier):
    chk = core.Check(PROP, 'exploration', tier)
    runner = core.Runner('asan')
    avoid = {e['avoid'] for e in chk.findings.open if e.get('avoid')}
    sbx = os.path.join(core.BUILD_ROOT, 'tmp', 'c14_sandbox_%d' % os.getpid())
    shutil.rmtree(sbx, ignore_errors=True)
    os.makedirs(sbx)
    # calibration of the line / column convention on bare one-line files
    calib = {}
    cal_items = []
    for kind in sorted(CULPRITS):
        p = os.path.join(sbx, 'cal_%s.sqf' % kind)
        cal_items.append([{'op': 'run', 'vm': 0, 'src': CULPRITS[kind][0] + '\n', 'path': p, 'reset_ts': True}])
    res = core.run_items(runner, [{'op': 'vm', 'vm': 0, 'auto_renew': True}], cal_items, batch=1)
    for kind, r in zip(sorted(CULPRITS), res):
        if isinstance(r, core.Death):
            chk.harness_errors.append('calibration of %s died' % kind)
            continue
        ob = observe(kind, r[0])
        if not ob:
            chk.harness_errors.append('calibration of %s: no diagnostic' % kind)
            continue
        calib[kind] = {what: (line - 1, None if col is None else col - CULPRITS[kind][1]) for what, line, col, path in ob}
    chk.counters['calibration'] = {k: {w: list(v) for w, v in d.items()} for k, d in calib.items()}
    n = 2400 if tier == 'quick' else 100000
    cases = []
    items = []
    for i in range(n):
        root = os.path.join(sbx, 'c%d' % i)
        c = build_case(i, tier, avoid, root)
        for p, t in c['files'].items():
            os.makedirs(os.path.dirname(p), exist_ok=True)
            with open(p, 'w', encoding='latin-1', newline='') as f:
                f.write(t)
        cases.append(c)
        items.append([{'op': 'run', 'vm': 0, 'src': c['files'][c['main']], 'path': c['main'], 'reset_ts': True}])
    results = core.run_items(runner, [{'op': 'vm', 'vm': 0, 'maps': [[sbx, '/']], 'auto_renew': True}], items, batch=40, base_cpu_ms=4000, item_cpu_ms=lambda it: 400, counters=chk.counters)
    allfeats = set()
    for i, (c, r) in enumerate(zip(cases, results)):
        chk.evaluations += 1
        chk.sig(c['kind'] + '|' + '+'.join(sorted(c['feats'])))
        allfeats |= c['feats']
        rep = {'files': {os.path.relpath(p, os.path.dirname(c['main'])): t for p, t in c['files'].items()}, 'culprit': c['kind'], 'file': os.path.relpath(c['target'], os.path.dirname(c['main'])),
               'line': c['line'], 'col': c['col']}
        if i < 2:
            chk.sample(rep)
        if isinstance(r, core.Death):
            chk.death_is_violation(r, 'layout #%d' % i, rep)
            continue
        st = r[0]
        if c['kind'] not in calib:
            continue
        ob = observe(c['kind'], st)
        if not ob:
            errs = [l[2][:150] for l in core.logs_of(st) if l[0] <= 1]
            chk.violation('no-diagnostic|' + c['kind'], 'layout #%d: the planted %s produced no diagnostic (%s)' % (i, c['kind'], errs[:2]), rep)
            continue
        for what, line, col, path in ob:
            chk.count('positions_checked')
            if what not in calib[c['kind']]:
                continue
            dl, dc = calib[c['kind']][what]
            exp_line = c['line'] + dl
            exp_col = None if dc is None else c['col'] + dc
            tag = '+'.join(sorted(f for f in c['feats'] if f in ('multi-line-define', 'continuation-in-code', 'block-comment-with-empty-line', 'culprit-in-include',
                                                                  'culprit-after-include-returns', 'crlf', 'conditional-inactive')))
            if os.path.normpath(path) != os.path.normpath(c['target']):
                chk.violation('wrong-file|%s|%s' % (what, tag), 'layout #%d: %s of the %s names file %s, the culprit is in %s line %d' % (
                    i, what, c['kind'], os.path.basename(path), os.path.relpath(c['target'], os.path.dirname(c['main'])), c['line']), dict(rep, reported=[what, line, col, path]))
                break
            if line != exp_line:
                chk.violation('wrong-line|%s|%s' % (what, tag), 'layout #%d: %s of the %s names line %d, the culprit is on line %d of %s' % (
                    i, what, c['kind'], line - dl, c['line'], os.path.basename(c['target'])), dict(rep, reported=[what, line, col, path]))
                break
            if exp_col is not None and col != exp_col:
                chk.violation('wrong-column|%s|%s' % (what, tag), 'layout #%d: %s of the %s names column %d, the culprit token is at column %d' % (
                    i, what, c['kind'], col - dc, c['col']), dict(rep, reported=[what, line, col, path]))
                break
    chk.counters['layout_elements_seen'] = sorted(allfeats)
    # probes
    for e in chk.findings.open + chk.findings.fixed:
        if not e.get('probe'):
            continue
        p = os.path.join(sbx, 'probe_%s.sqf' % e['id'])
        r = runner.run([{'steps': [{'op': 'vm', 'vm': 0}, {'op': 'run', 'vm': 0, 'src': e['probe'], 'path': p}]}])[0]
        bad = isinstance(r, core.Death)
        if not bad:
            lines = [l[3] for l in core.logs_of(r['res'][1]) if l[0] == 1]
            bad = lines[:1] != [e['expect_line']]
        chk.count('probes')
        if e['status'] == 'open':
            if bad:
                chk.known(e['id'])
            else:
                chk.notes.append('known finding %s no longer reproduces' % e['id'])
        elif bad:
            chk.violation('regressed:' + e['id'], 'fixed finding %s regressed' % e['id'], {'src': e['probe']})
    shutil.rmtree(sbx, ignore_errors=True)
    return chk.finish(
        rule='layouts of 0-8 elements (code, blank lines, line comments, block comments with empty lines, single- and multi-line defines, continuations, active/inactive conditional sections, '
             'includes nested <= 3, LF or CRLF) followed by a culprit (3 runtime errors, 2 parse errors, __LINE__/__FILE__) at a chosen indent in the main file, inside an include or after an include returned; '
             'distinct = (culprit kind, set of layout elements)',
        min_evaluations=300,
        assumptions=['line/column convention calibrated per culprit kind on a bare one-line file; afterwards required to be independent of the layout',
                     'columns are asserted only for culprit lines that contain no macro use'])


def replay(path):
    with open(path) as f:
        d = json.load(f)
    print(json.dumps(d['replay'], indent=1)[:3000])
    return 1
