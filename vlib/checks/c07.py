"""C07 - equality is an equivalence consistent with hashing; HashMap is a finite map.
Relation checks on colliding generated values (evaluated by the real VM), hash probe through value::hash(), and hashmap
operation histories compared step by step with a Python dictionary keyed by the structural value at insertion time."""
import json

from .. import core

PROP = 'C07'

SCALARS = ['0', '-0', '1', '1.0', '0.5', '2', '-1', '1e0', '100', '1e2']
STRINGS = ['""', '"a"', '"A"', '"ab"', '"Ab"', '"aB"', '"b"', '" a"', '"a[0]"', '"a{0}"', '"A[0]"', '"@"', '"`"', '"x^"', '"x~"', '"X^"', '"\\"', '"|"', '"z]"', '"z}"', '"Z]"',
           '"\xe4"', '"\xc4"', '"1"', '"_"']
BOOLS = ['true', 'false']
CODES = ['{1}', '{ 1 }', '{1;2}', '{}', '{a}', '{A}']


def gen_val(rng, depth, allow_hm=True):
    c = rng.random()
    if depth <= 0 or c < 0.5:
        k = rng.random()
        if k < 0.4:
            return rng.choice(SCALARS)
        if k < 0.75:
            return rng.choice(STRINGS)
        if k < 0.88:
            return rng.choice(BOOLS)
        return rng.choice(CODES)
    if c < 0.8 or not allow_hm:
        return '[' + ','.join(gen_val(rng, depth - 1, allow_hm) for _ in range(rng.randint(0, 3))) + ']'
    ks = rng.sample(['0', '1', '2', '0.5', '"a"', '"A"', '"ab"', 'true'], rng.randint(0, 4))
    pairs = [(k, rng.choice(SCALARS + STRINGS + BOOLS)) for k in ks]
    rng.shuffle(pairs)
    return '(createHashMapFromArray [' + ','.join('[%s,%s]' % p for p in pairs) + '])'


def variant(rng, lit):
    """a literal that should often be equal to lit: same text, re-spelled number, different case, reordered hashmap pairs"""
    c = rng.random()
    if lit.startswith('(createHashMapFromArray ['):
        import re
        inner = lit[len('(createHashMapFromArray ['):-2]
        pairs = re.findall(r'\[(?:"(?:[^"]|"")*"|\{[^}]*\}|[^\[\],])+,(?:"(?:[^"]|"")*"|\{[^}]*\}|[^\[\],])+\]', inner)
        if ','.join(pairs) == inner and len(pairs) > 1:
            rng.shuffle(pairs)
            return '(createHashMapFromArray [' + ','.join(pairs) + '])'
        return lit
    if c < 0.4:
        return lit
    if lit in SCALARS:
        return rng.choice(SCALARS)
    if lit in STRINGS:
        return rng.choice(STRINGS)
    if lit in CODES:
        return rng.choice(CODES)
    return lit.replace('1.0', '1').replace('"a"', rng.choice(['"a"', '"A"'])) if rng.random() < 0.5 else lit


# ---- reference structures ----------------------------------------------------------------------------------------------

def canon(v):
    """structural encoding of a python-side value (number/bool/str/list) used as dictionary key: isEqualTo semantics"""
    if isinstance(v, bool):
        return ('b', v)
    if isinstance(v, (int, float)):
        return ('n', float(v) + 0.0)
    if isinstance(v, str):
        return ('s', v)
    if isinstance(v, list):
        return ('a', tuple(canon(x) for x in v))
    raise ValueError(v)


def lit_of(v):
    if isinstance(v, bool):
        return 'true' if v else 'false'
    if isinstance(v, (int, float)):
        if v == 0 and str(float(v)).startswith('-'):
            return '-0'
        return ('%g' % v)
    if isinstance(v, str):
        return core.sqf_str(v)
    return '[' + ','.join(lit_of(x) for x in v) + ']'


KEY_POOL = [0, -0.0, 1, 1.0, 2, 0.5, 'a', 'A', 'ab', '', True, False, [1], [1, 2], ['a'], [[1], 2], [], [True], [0], [-0.0], [[1, 2], 3], [0, [[2], 'a']]]


def gen_history(rng, n, feats, avoid):
    """returns (sqf statements, expected observations)"""
    keys = rng.sample(range(len(KEY_POOL)), rng.randint(3, 6))
    keys = [KEY_POOL[i] for i in keys]
    model = {'m': {}}            # map name -> dict canon -> (key value, val)
    stmts = ['vh_m = createHashMap']
    expected = []
    val = [100]
    arrvars = {}                 # variable name -> python list (arrays used as keys through a variable, mutated later)

    def fresh():
        val[0] += 1
        return val[0]

    def dump(step, names):
        out = []
        for nm in names:
            d = model[nm]
            stm = 'diag_log str [%d, "%s", count vh_%s, [%s], [%s], (keys vh_%s) apply {str _x}]' % (
                step, nm, nm, ','.join('(%s) in vh_%s' % (lit_of(k), nm) for k in keys), ','.join('vh_%s get (%s)' % (nm, lit_of(k)) for k in keys), nm)
            stmts.append(stm)
            ins = [canon(k) in d for k in keys]
            gets = [d[canon(k)][1] if canon(k) in d else None for k in keys]
            expected.append((step, nm, len(d), ins, gets, sorted(_str_of(kv[0]) for kv in d.values())))
    for step in range(n):
        names = sorted(model)
        nm = rng.choice(names)
        op = rng.choice(['set', 'set', 'set', 'delete', 'copy', 'fromarray', 'setvar', 'mutate', 'get'])
        if op == 'set':
            k = rng.choice(keys)
            v = fresh()
            stmts.append('vh_%s set [%s, %d]' % (nm, lit_of(k), v))
            model[nm][canon(k)] = (model[nm].get(canon(k), (k, None))[0] if canon(k) in model[nm] else k, v)
            feats.add('set')
        elif op == 'delete':
            k = rng.choice(keys)
            stmts.append('vh_%s deleteAt (%s)' % (nm, lit_of(k)))
            model[nm].pop(canon(k), None)
            feats.add('deleteAt')
        elif op == 'copy' and len(model) < 3:
            new = 'c%d' % step
            stmts.append('vh_%s = +vh_%s' % (new, nm))
            model[new] = dict(model[nm])
            feats.add('copy')
        elif op == 'fromarray':
            pairs = [(rng.choice(keys), fresh()) for _ in range(rng.randint(0, 4))]
            stmts.append('vh_%s = createHashMapFromArray [%s]' % (nm, ','.join('[%s,%d]' % (lit_of(k), v) for k, v in pairs)))
            d = {}
            for k, v in pairs:
                d[canon(k)] = (d[canon(k)][0] if canon(k) in d else k, v)
            model[nm] = d
            feats.add('createHashMapFromArray' + ('-duplicates' if len({canon(k) for k, _ in pairs}) < len(pairs) else ''))
        elif op == 'setvar' and 'key-mutation' not in avoid:
            ks = [k for k in keys if isinstance(k, list)]
            if ks:
                k = rng.choice(ks)
                var = 'vh_k%d' % step
                v = fresh()
                stmts.append('%s = %s; vh_%s set [%s, %d]' % (var, lit_of(k), nm, var, v))
                model[nm][canon(k)] = (model[nm][canon(k)][0] if canon(k) in model[nm] else k, v)
                arrvars[var] = list(k)
                feats.add('set-through-variable')
        elif op == 'mutate' and arrvars and 'key-mutation' not in avoid:
            var = rng.choice(sorted(arrvars))
            inner = [i for i, x in enumerate(arrvars[var]) if isinstance(x, list)]
            if inner and rng.random() < 0.6:
                # the array the key was built from is changed one level down: a key is captured by value all the way
                i = rng.choice(inner)
                stmts.append(rng.choice(['(%s select %d) pushBack 9', '(%s select %d) set [0, 77]']) % (var, i))
                feats.add('key-array-mutated-later')
                feats.add('key-inner-array-mutated-later')
            else:
                stmts.append('%s pushBack 9' % var)
                feats.add('key-array-mutated-later')
        elif op == 'get':
            pass
        dump(step, sorted(model))
    return stmts, expected, keys


def _str_of(v):
    """what `str v` prints"""
    if isinstance(v, bool):
        return 'true' if v else 'false'
    if isinstance(v, (int, float)):
        if v == 0:
            return '-0' if str(float(v)).startswith('-') else '0'
        return '%g' % v
    if isinstance(v, str):
        return core.sqf_str(v)
    return '[' + ','.join(_str_of(x) for x in v) + ']'


def parse_dump(text):
    """[step,"name",count,[ins],[gets],[keystrings]] -> python"""
    # the dump is an SQF array literal of numbers, booleans, strings, nil and nested arrays
    pos = [0]
    s = text

    def val():
        ch = s[pos[0]]
        if ch == '[':
            pos[0] += 1
            out = []
            while s[pos[0]] != ']':
                out.append(val())
                if s[pos[0]] == ',':
                    pos[0] += 1
            pos[0] += 1
            return out
        if ch == '"':
            pos[0] += 1
            buf = []
            while True:
                c = s[pos[0]]
                if c == '"':
                    if pos[0] + 1 < len(s) and s[pos[0] + 1] == '"':
                        buf.append('"')
                        pos[0] += 2
                        continue
                    pos[0] += 1
                    return ''.join(buf)
                buf.append(c)
                pos[0] += 1
        j = pos[0]
        while j < len(s) and s[j] not in ',]':
            j += 1
        tok = s[pos[0]:j]
        pos[0] = j
        if tok == 'true':
            return True
        if tok == 'false':
            return False
        if tok in ('nil', ''):
            return None
        return float(tok)
    return val()


def main(tier):
    chk = core.Check(PROP, 'exploration', tier)
    runner = core.Runner('asan')
    avoid = {e['avoid'] for e in chk.findings.open if e.get('avoid')}
    vmstep = {'op': 'vm', 'vm': 0, 'max_runtime_ms': 1000, 'auto_renew': True}
    nt = 6000 if tier == 'quick' else 300000
    nh = 500 if tier == 'quick' else 20000
    hlen = 25 if tier == 'quick' else 60
    items = []
    meta = []
    for i in range(nt):
        rng = core.rng('c07t', i)
        allow_hm = 'hashmap-values-hash' not in avoid
        a = gen_val(rng, rng.randint(0, 2), allow_hm)
        b = variant(rng, a) if rng.random() < 0.7 else gen_val(rng, rng.randint(0, 2), allow_hm)
        c = variant(rng, b) if rng.random() < 0.7 else gen_val(rng, rng.randint(0, 1), allow_hm)
        src = ('vh_a = %s; vh_b = %s; vh_c = %s; diag_log str [vh_a isEqualTo vh_b, vh_b isEqualTo vh_a, vh_a isEqualTo vh_a, vh_a isEqualTo (%s), vh_b isEqualTo vh_c, vh_a isEqualTo vh_c, '
               'vh_a isNotEqualTo vh_b]') % (a, b, c, a)
        steps = [{'op': 'run', 'vm': 0, 'src': src, 'reset_ts': True, 'nopp': True},
                 {'op': 'eval', 'vm': 0, 'src': a, 'hash': True}, {'op': 'eval', 'vm': 0, 'src': b, 'hash': True}]
        simple = (a in SCALARS and b in SCALARS) or (a in STRINGS and b in STRINGS)
        if simple:
            steps.append({'op': 'run', 'vm': 0, 'src': 'diag_log str [(%s) == (%s), (%s) != (%s), (toLower %s) isEqualTo (toLower %s)]' % (a, b, a, b, a if a in STRINGS else '"x"', b if b in STRINGS else '"x"'), 'reset_ts': True, 'nopp': True})
        items.append(steps)
        meta.append(('triple', a, b, c, simple))
    hist = []
    for i in range(nh):
        rng = core.rng('c07h', i)
        feats = set()
        stmts, expected, keys = gen_history(rng, hlen, feats, avoid)
        hist.append((stmts, expected, keys, feats))
        items.append([{'op': 'vm', 'vm': 1, 'max_runtime_ms': 3000}, {'op': 'run', 'vm': 1, 'src': ';\n'.join(stmts), 'nopp': True}])
        meta.append(('history', i))
    results = core.run_items(runner, [vmstep], items, batch=40, base_cpu_ms=4000, item_cpu_ms=lambda it: 400 * len(it), counters=chk.counters)
    for k, (mt, r) in enumerate(zip(meta, results)):
        chk.evaluations += 1
        if mt[0] == 'triple':
            _, a, b, c, simple = mt
            chk.sig('triple|%s|%s|%s' % (a[:30], b[:30], c[:20]))
            rep = {'a': a, 'b': b, 'c': c}
            if k < 3:
                chk.sample(rep)
            if isinstance(r, core.Death):
                chk.death_is_violation(r, 'relations on %s' % json.dumps(rep)[:300], rep)
                continue
            st = r[0]
            if core.error_logs(core.logs_of(st)) or 'exc' in st:
                chk.violation('relation-error', 'comparing %s raised %s' % (json.dumps(rep)[:300], [l[2][:100] for l in core.error_logs(core.logs_of(st))[:1]] or st.get('exc')), rep)
                continue
            vals = core.diag_values(core.logs_of(st))
            if len(vals) != 1:
                chk.violation('relation-missing', 'no result for %s' % json.dumps(rep)[:300], rep)
                continue
            ab, ba, aa, aa2, bc, ac, nab = parse_dump(vals[0])
            chk.count('pairs_compared')
            if ab:
                chk.count('pairs_equal')
            if ab != ba:
                chk.violation('not-symmetric', 'isEqualTo is not symmetric on a = %s, b = %s: a~b %s, b~a %s' % (a[:200], b[:200], ab, ba), rep)
            elif not aa or not aa2:
                chk.violation('not-reflexive', 'a value is not equal to itself: %s (same variable: %s, re-evaluated literal: %s)' % (a[:300], aa, aa2), rep)
            elif ab and bc and not ac:
                chk.violation('not-transitive', 'a~b and b~c but not a~c for a = %s, b = %s, c = %s' % (a[:150], b[:150], c[:150]), rep)
            elif nab == ab:
                chk.violation('isnotequalto', 'isNotEqualTo does not negate isEqualTo on %s / %s' % (a[:200], b[:200]), rep)
            else:
                ha, hb = r[1].get('hash'), r[2].get('hash')
                if ab and ha is not None and hb is not None:
                    chk.count('hash_pairs_checked')
                    if ha != hb:
                        chk.violation('equal-but-different-hash|' + ('hashmap' if 'HashMap' in a else a[:1]), 'values compare equal but hash differently: %s (%s) vs %s (%s)' % (a[:200], ha, b[:200], hb), rep)
                if simple and len(r) > 3:
                    v2 = core.diag_values(core.logs_of(r[3]))
                    if v2:
                        eq, ne, lower_eq = parse_dump(v2[0])
                        want = lower_eq if a in STRINGS else ab
                        chk.count('double_equals_checked')
                        if eq != want or ne == eq:
                            chk.violation('double-equals', '%s == %s gives %s (!= gives %s) but isEqualTo%s gives %s' % (a, b, eq, ne, ' on lower-cased strings' if a in STRINGS else '', want), rep)
        else:
            stmts, expected, keys, feats = hist[mt[1]]
            chk.sig('history|' + '+'.join(sorted(feats)) + '|' + str(len(keys)))
            rep = {'history': stmts}
            if mt[1] < 1:
                chk.sample(stmts[:12])
            if isinstance(r, core.Death):
                chk.death_is_violation(r, 'hashmap history #%d' % mt[1], rep)
                continue
            st = r[1]
            errs = core.error_logs(core.logs_of(st))
            if errs or 'exc' in st:
                chk.violation('history-error', 'hashmap history #%d raised %s' % (mt[1], (errs[0][2] if errs else st.get('exc'))[:200]), rep)
                continue
            obs = core.diag_values(core.logs_of(st))
            if len(obs) != len(expected):
                chk.violation('history-length', 'hashmap history #%d produced %d observations, expected %d' % (mt[1], len(obs), len(expected)), rep)
                continue
            for o, e in zip(obs, expected):
                chk.count('history_observations')
                d = parse_dump(o)
                step, nm, cnt, ins, gets, kstr = e
                got = (int(d[0]), d[1], int(d[2]), d[3], [None if x is None else int(x) for x in d[4]], sorted(d[5]))
                want = (step, nm, cnt, ins, gets, kstr)
                if got != want:
                    what = 'count' if got[2] != want[2] else 'in' if got[3] != want[3] else 'get' if got[4] != want[4] else 'keys'
                    tag = '+'.join(sorted(f for f in feats if f in ('key-array-mutated-later', 'copy', 'createHashMapFromArray-duplicates')))
                    chk.violation('history-mismatch|%s|%s' % (what, tag), 'hashmap history #%d step %d map %s: %s differs: expected (count, in, get, keys) = %s, observed %s; keys probed: %s; last statement: %s' % (
                        mt[1], step, nm, what, json.dumps(want[2:]), json.dumps(got[2:]), [lit_of(x) for x in keys], stmts[min(len(stmts) - 1, 1 + 0)][:0] + _stmt_of_step(stmts, step)),
                        dict(rep, step=step, expected=want, observed=got))
                    break
    for e in chk.findings.open + chk.findings.fixed:
        if not e.get('probe'):
            continue
        r = runner.run([{'steps': [{'op': 'vm', 'vm': 0, 'max_runtime_ms': 500}, {'op': 'run', 'vm': 0, 'src': e['probe'], 'nopp': True}]}])[0]
        bad = isinstance(r, core.Death) or core.diag_values(core.logs_of(r['res'][1])) != e['expect_trace']
        chk.count('probes')
        if e['status'] == 'open':
            if bad:
                chk.known(e['id'])
            else:
                chk.notes.append('known finding %s no longer reproduces' % e['id'])
        elif bad:
            chk.violation('regressed:' + e['id'], 'fixed finding %s regressed' % e['id'], {'src': e['probe']})
    return chk.finish(
        rule='triples (a, b, c) of values drawn from small colliding alphabets (+-0, 1 vs 1.0, case variants, equal-text code, nested arrays, hashmaps built in different orders): '
             'symmetry, reflexivity, transitivity, isNotEqualTo, == vs isEqualTo, equal => equal value::hash(); hashmap histories of %d operations over <= 6 probed keys '
             '(set, deleteAt, +copy, createHashMapFromArray, set through an array variable that is mutated later) with all observables compared after every step; distinct = literal triple / (feature set, key count)' % hlen,
        min_evaluations=500,
        assumptions=['reference dictionary keyed by the structural value of the key at insertion time (numbers by value with -0 == 0, strings case-sensitive, arrays element-wise)'])


def _stmt_of_step(stmts, step):
    # statements are: create, then per step one operation (possibly none) followed by dumps
    marker = 'diag_log str [%d,' % step
    prev = ''
    for s in stmts:
        if s.startswith(marker):
            return prev[:200]
        if not s.startswith('diag_log'):
            prev = s
    return ''


def replay(path):
    with open(path) as f:
        d = json.load(f)
    print(json.dumps(d['replay'])[:3000])
    return 1
