"""C12 - the scheduler is fair and isolating; sleep, scriptDone, terminate work as documented.
The scheduler hooks (exec_enter/exec_leave, instruction counts) record a slice log; an offline checker replays the
round-robin over that log (who may be skipped, who must run next), checks slice lengths, wake-up times, scriptDone
answers and terminate against it, and every script's own trace against its statement order."""
import json
import re

from .. import core

PROP = 'C12'
BUDGETS = [1, 2, 7, 150, 1000]


# ---- workload --------------------------------------------------------------------------------------------------------

class ScriptGen:
    def __init__(self, rng, avoid, max_scripts):
        self.rng = rng
        self.avoid = avoid
        self.nscripts = 0
        self.max_scripts = max_scripts
        self.scripts = {}      # id -> list of items
        self.tops = []         # ids of the scripts spawned by the main script, in order
        self.feats = set()

    def script(self, sid, depth, top=None):
        r = self.rng
        top = sid if top is None else top
        targets = [t for t in self.tops if t < top]
        items = []
        k = 0
        for _ in range(r.randint(1, 8)):
            c = r.random()
            if c < 0.35:
                k += 1
                items.append(('trace', k))
            elif c < 0.55:
                items.append(('busy', r.choice([1, 2, 5, 20, 60, 200])))
                self.feats.add('busy')
            elif c < 0.72:
                items.append(('sleep', r.choice([0, 0.0005, 0.001, 0.002, 0.01])))
                self.feats.add('sleep')
            elif c < 0.82 and targets:
                items.append(('poll', r.choice(targets)))
                self.feats.add('scriptDone')
            elif c < 0.88 and targets and 'terminate' not in self.avoid:
                items.append(('term', r.choice(targets)))
                self.feats.add('terminate')
            elif c < 0.95 and depth < 2 and self.nscripts < self.max_scripts:
                self.nscripts += 1
                child = self.nscripts
                self.scripts[child] = None
                items.append(('spawn', child))
                self.scripts[child] = self.script(child, depth + 1, top)
                self.feats.add('nested-spawn')
            elif c < 0.975 and 'terminate' not in self.avoid:
                # the script gives itself up; what follows in the same slice may still run, nothing after its next scheduling point
                items.append(('selfterm',))
                self.feats.add('terminate-self')
            else:
                k += 1
                items.append(('trace', k))
        k += 1
        items.append(('trace', k))
        return items

    def emit(self, sid):
        out = []
        for it in self.scripts[sid]:
            if it[0] == 'trace':
                out.append('diag_log str [%d, %d]' % (sid, it[1]))
            elif it[0] == 'busy':
                out.append('for "_q" from 1 to %d do { vh_x%d = _q }' % (it[1], sid))
            elif it[0] == 'sleep':
                out.append('diag_log str [%d, "sleep", %g]; sleep %g; diag_log str [%d, "woke"]' % (sid, it[1], it[1], sid))
            elif it[0] == 'poll':
                # the answer is computed somewhere between the two log events (a slice boundary may fall in between)
                out.append('diag_log str [%d, "pre", %d]; diag_log str [%d, "done", %d, scriptDone vh_h%d]' % (sid, it[1], sid, it[1], it[1]))
            elif it[0] == 'term':
                out.append('if (!scriptDone vh_h%d) then { terminate vh_h%d; diag_log str [%d, "term", %d] }' % (it[1], it[1], sid, it[1]))
            elif it[0] == 'selfterm':
                out.append('terminate _thisScript; diag_log str [%d, "term", %d]' % (sid, sid))
            elif it[0] == 'spawn':
                out.append('vh_h%d = [] spawn { %s }' % (it[1], self.emit(it[1])))
        return '; '.join(out)

    def program(self):
        r = self.rng
        n = r.randint(1, min(4, self.max_scripts))
        main = []
        for _ in range(n):
            self.nscripts += 1
            sid = self.nscripts
            self.tops.append(sid)
            self.scripts[sid] = self.script(sid, 1)
            main.append('vh_h%d = [] spawn { %s }' % (sid, self.emit(sid)))
            if r.random() < 0.3:
                main.append('for "_q" from 1 to %d do { vh_x0 = _q }' % r.choice([1, 10, 100]))
        main.append('diag_log str [0, 1]')
        return ';\n'.join(main)


# ---- offline checker ---------------------------------------------------------------------------------------------------

SL = ['ctx', 't0', 't1', 'n', 'res', 'susp', 'wake', 'budget', 'can_suspend', 'empty_after', 'known0', 'known1', 'terminated', 'seq0', 'seq1']


def check_schedule(slices, drops=()):
    """replays the round-robin; returns list of (kind, text). drops: (ctx, terminate flag last seen, seq) of scripts that left the
    scheduler list without finishing through a slice - legitimate exactly when they had been terminated"""
    out = []
    dropped = {}
    for c_, term, seq in drops:
        if not term:
            out.append(('vanished', 'script context %d left the scheduler list without finishing and without having been terminated' % c_))
            return out
        dropped[c_] = seq
    if not slices:
        return [('no-slices', 'the slice log is empty')]
    alive = list(range(slices[0]['known0']))
    nknown = slices[0]['known0']
    state = {}
    i = 0
    prev_t1 = slices[0]['t0']
    for idx, s in enumerate(slices):
        c = s['ctx']
        if s['n'] > s['budget']:
            out.append(('slice-too-long', 'slice %d of script context %d executed %d instructions with a budget of %d' % (idx, c, s['n'], s['budget'])))
        if c not in alive:
            out.append(('unknown-context', 'slice %d runs context %d which is not in the scheduler list %s' % (idx, c, alive)))
            return out
        steps = 0
        while True:
            if i >= len(alive):
                i = 0
            cand = alive[i]
            if cand == c:
                break
            if cand in dropped and dropped[cand] <= s['seq1']:
                # terminated scripts end when the scheduler gets to them: no slice, gone from the list
                alive.remove(cand)
                steps += 1
                continue
            st = state.get(cand)
            if not (st and st['susp']):
                out.append(('runnable-script-skipped', 'before slice %d (context %d) the runnable context %d was due but got no slice (list %s)' % (idx, c, cand, alive)))
            elif st['wake'] <= prev_t1:
                out.append(('due-sleeper-skipped', 'before slice %d (context %d) context %d was skipped although its wake-up time %d had passed at %d' % (idx, c, cand, st['wake'], prev_t1)))
            i += 1
            steps += 1
            if steps > 2 * len(alive) + 2:
                out.append(('lost', 'context %d of slice %d not found in %s' % (c, idx, alive)))
                return out
        st = state.get(c)
        if st and st['susp'] and s['t0'] < st['wake']:
            out.append(('resumed-before-wakeup', 'context %d was resumed at virtual time %d, before its wake-up time %d' % (c, s['t0'], st['wake'])))
        state[c] = {'susp': bool(s['susp']), 'wake': s['wake']}
        for new in range(nknown, s['known1']):
            alive.append(new)
        nknown = max(nknown, s['known1'])
        if s['res'] == -1:
            alive.remove(c)
        else:
            i += 1
        prev_t1 = s['t1']
        if len(out) > 5:
            break
    return out


def analyse(chk, gen, st, label, replay, budget):
    logs = core.logs_of(st)
    mon = st.get('mon') or {}
    raw = mon.get('slice_log') or []
    slices = [dict(zip(SL, s)) for s in raw]
    chk.count('slices', len(slices))
    chk.count('instructions', mon.get('instr', 0))
    errs = [l for l in logs if 0 <= l[0] <= 1]
    if errs:
        chk.violation('unexpected-error|' + errs[0][2].split('\t')[-1][:40], '%s raised %s' % (label, errs[0][2][:200]), replay)
        return
    drops = mon.get('drops') or []
    for kind, text in check_schedule(slices, drops):
        chk.violation('schedule|' + kind, '%s (slice budget %d): %s' % (label, budget, text), dict(replay, slices=raw[:80]))
        return
    # events with their logical time
    events = []
    times = {}
    for l in logs:
        if l[1] != 60019:
            continue
        txt = l[2].split('[DIAG_LOG] ', 1)[-1]
        m = re.match(r'\[(\d+),(.*)\]$', txt)
        if not m:
            continue
        events.append((l[7], int(m.group(1)), m.group(2)))
        times[l[7]] = l[6]

    def ctx_at(seq):
        for s in slices:
            if s['seq0'] < seq < s['seq1']:
                return s['ctx']
        return None
    ctx_of = {}
    for seq, sid, rest in events:
        c = ctx_at(seq)
        if c is None:
            chk.violation('event-outside-slice', '%s: statement of script %d executed outside any slice' % (label, sid), replay)
            return
        if ctx_of.setdefault(sid, c) != c:
            chk.violation('script-changed-context', '%s: script %d ran in two contexts' % (label, sid), replay)
            return
    final = {}
    for s in slices:
        if s['res'] == -1:
            final[s['ctx']] = s
    terminated_at = {}
    for seq, sid, rest in events:
        m = re.match(r'"term",(\d+)$', rest)
        if m:
            terminated_at.setdefault(int(m.group(1)), seq)
    # a terminator can itself be dropped between its terminate call and the statement that reports it: the monitor's record of
    # scripts dropped with the terminate flag set is the authority, the "term" events only give the earlier time
    inv = {c: sid for sid, c in ctx_of.items()}
    for c_, term, dseq in drops:
        if term and c_ in inv:
            terminated_at.setdefault(inv[c_], dseq)
    any_terminated = bool(terminated_at) or any(d[1] for d in drops)
    # per-script statement order (isolation): traces k = 1..K in order, complete unless terminated
    for sid, items in gen.scripts.items():
        want = [it[1] for it in items if it[0] == 'trace']
        got = [int(rest) for seq, s2, rest in events if s2 == sid and re.fullmatch(r'\d+', rest)]
        if sid in terminated_at:
            # a script that terminates itself still finishes the slice it is in: its statements count as late from the end of that slice on
            bound = terminated_at[sid]
            for s_ in slices:
                if s_['ctx'] == ctx_of.get(sid) and s_['seq0'] <= bound <= s_['seq1']:
                    bound = s_['seq1']
                    chk.count('self_terminations')
            late = [(seq, rest) for seq, s2, rest in events if s2 == sid and seq > bound]
            chk.count('terminations')
            if late:
                chk.violation('terminated-script-continued', '%s: script %d executed %d more statements after it was terminated' % (label, sid, len(late)), replay)
                return
            if got != want[:len(got)]:
                chk.violation('isolation|order', '%s: script %d traced %s, its statements are %s' % (label, sid, got, want), replay)
                return
        elif not got and any_terminated and sid not in ctx_of:
            # a script that was never started because its spawner (or the spawner's spawner) was terminated first
            chk.count('never_started_below_terminated')
        elif got != want:
            chk.violation('isolation|trace', '%s: script %d traced %s instead of %s (interleaving must not change a script\'s own order and results)' % (label, sid, got, want), replay)
            return
    # scriptDone answers against the slice log
    # a sleeping script is never resumed before its wake-up time (independent of the wake-up time the runtime computed)
    asleep = {}
    for seq, sid, rest in events:
        ms = re.match(r'"sleep",([0-9.e+-]+)$', rest)
        if ms:
            asleep[sid] = (times[seq], float(ms.group(1)))
        elif rest == '"woke"' and sid in asleep:
            t_sleep, dur = asleep.pop(sid)
            chk.count('sleeps_checked')
            # sleep takes whole milliseconds (the runtime truncates), measured from the call
            want_ns = int(dur * 1000) * 1000000
            if times[seq] - t_sleep < want_ns:
                chk.violation('woke-early', '%s: script %d slept %g s at virtual time %d ns but ran again at %d ns (%.3f ms later)' % (
                    label, sid, dur, t_sleep, times[seq], (times[seq] - t_sleep) / 1e6), replay)
                return
    last_pre = {}
    for seq, sid, rest in events:
        mp = re.match(r'"pre",(\d+)$', rest)
        if mp:
            last_pre[(sid, int(mp.group(1)))] = seq
            continue
        m = re.match(r'"done",(\d+),(true|false)$', rest)
        if not m:
            continue
        tgt = int(m.group(1))
        ans = m.group(2) == 'true'
        seq_pre = last_pre.get((sid, tgt), seq)
        chk.count('scriptDone_polls')
        c = ctx_of.get(tgt)
        if c is None:
            # the target never traced anything before: cannot be mapped; it still has statements, so false is the only truthful answer if it never finished
            continue
        f = final.get(c)
        if f is None and tgt in terminated_at:
            # terminated: done from the moment the scheduler dropped it; between the terminate call and the drop either answer can be observed
            dseq = next((d[2] for d in drops if d[0] == c), None)
            # the drop happened between two slices: after the end of the last slice before its record and before the record
            lo = max([s_['seq1'] for s_ in slices if dseq is not None and s_['seq1'] < dseq] or [0])
            if dseq is not None and dseq < seq_pre:
                truth = True
            elif dseq is None or seq < lo:
                truth = False       # still in the scheduler's list while the poll was evaluated
            else:
                chk.count('scriptDone_polls_ambiguous')
                continue
            if ans != truth:
                chk.violation('scriptDone|terminated|%s' % ('true-too-early' if ans else 'false-after-drop'),
                              '%s: scriptDone of terminated script %d answered %s' % (label, tgt, ans), replay)
                return
            continue
        if f is not None and f['seq1'] < seq_pre:
            truth = True
        elif f is None or f['seq0'] > seq:
            truth = False
        else:
            chk.count('scriptDone_polls_ambiguous')
            continue
        if ans != truth:
            chk.violation('scriptDone|%s' % ('true-too-early' if ans else 'false-after-end'),
                          '%s: scriptDone of script %d answered %s although the script %s' % (label, tgt, ans, 'had finished' if truth else 'still had statements to run'), replay)
            return
    # slices of a terminated context after the termination must execute nothing
    for tgt, seq in terminated_at.items():
        c = ctx_of.get(tgt)
        if c is None:
            continue
        # the script that calls terminate on itself, or is terminated while it holds the slice, still finishes that slice
        ran = sum(s['n'] for s in slices if s['ctx'] == c and s['seq0'] > seq)
        if ran > 0 and not chk.known_by_sig('terminate-ignored'):
            chk.violation('terminated-script-ran', '%s: %d instructions of script %d executed after terminate' % (label, ran, tgt), replay)
            return


def main(tier):
    chk = core.Check(PROP, 'exploration', tier)
    runner = core.Runner('asan')
    avoid = {e['avoid'] for e in chk.findings.open if e.get('avoid')}
    n = 4000 if tier == "quick" else 60000
    cases = []
    gens = []
    for i in range(n):
        rng = core.rng('c12', i)
        g = ScriptGen(rng, avoid, rng.choice([1, 2, 3, 4, 6]))
        src = g.program()
        budget = BUDGETS[i % len(BUDGETS)]
        tick = [0, 1000, 20000][(i // len(BUDGETS)) % 3]   # virtual time per executed instruction
        gens.append((g, src, budget))
        cases.append([{'op': 'vm', 'vm': 0, 'max_runtime_ms': 0, 'mon': {'slices': True, 'budget': budget, 'tick_ns': tick}}, {'op': 'run', 'vm': 0, 'src': src, 'nopp': True, 'mon': True}])
    # exhaustive small schedules: <= 3 scripts of <= 3 statements, budgets 1-3
    small = []
    atoms = ['diag_log str [%d, %d]', 'sleep 0.0001', 'for "_q" from 1 to 3 do { vh_x = _q }']
    if tier == 'thorough':
        import itertools
        for ns in (2, 3):
            for shape in itertools.product(range(3), repeat=ns * 2):
                for b in (1, 2, 3):
                    small.append((ns, shape, b))
    results = core.run_items(runner, [], cases, batch=15, base_cpu_ms=4000, item_cpu_ms=lambda it: 3000, counters=chk.counters)
    feats = set()
    for i, ((g, src, budget), r) in enumerate(zip(gens, results)):
        chk.evaluations += 1
        chk.sig('%d|%d|%s' % (budget, len(g.scripts), '+'.join(sorted(g.feats))))
        feats |= g.feats
        replay = {'src': src, 'budget': budget}
        if i < 3:
            chk.sample({'budget': budget, 'src': src[:800]})
        if isinstance(r, core.Death):
            chk.death_is_violation(r, 'schedule #%d' % i, replay)
            continue
        analyse(chk, g, r[1], 'schedule #%d' % i, replay, budget)
    chk.counters['features_seen'] = sorted(feats)
    # probes
    for e in chk.findings.open + chk.findings.fixed:
        if not e.get('probe'):
            continue
        r = runner.run([{'steps': [{'op': 'vm', 'vm': 0, 'mon': {'slices': True, 'budget': 7}}, {'op': 'run', 'vm': 0, 'src': e['probe'], 'nopp': True}]}])[0]
        bad = isinstance(r, core.Death) or core.diag_values(core.logs_of(r['res'][1])) != e['expect_trace']
        chk.count('probes')
        if e['status'] == 'open':
            if bad:
                chk.known(e['id'])
            else:
                chk.notes.append('known finding %s no longer reproduces' % e['id'])
        elif bad:
            chk.violation('regressed:' + e['id'], 'fixed finding %s regressed' % e['id'], {'src': e['probe']})
    return chk.finish(
        rule='1-6 scripts (nested spawns) of 2-9 statements with varying cost (busy loops), sleeps (0 to 10 ms), scriptDone polls and terminate of earlier scripts, run under slice budgets %s; '
             'the slice log of every run is replayed against the round-robin rule; distinct = (budget, script count, feature set)' % BUDGETS,
        min_evaluations=100,
        assumptions=['the scheduler visits the context list in creation order; a context may be skipped only while it sleeps (wake-up time not yet reached)',
                     'scripts share no data except read-only script handles'])


def replay(path):
    with open(path) as f:
        d = json.load(f)
    rep = d['replay']
    runner = core.Runner('asan', workers=1)
    r = runner.run([{'steps': [{'op': 'vm', 'vm': 0, 'mon': {'slices': True, 'budget': rep.get('budget', 7)}}, {'op': 'run', 'vm': 0, 'src': rep['src'], 'nopp': True, 'mon': True}]}])[0]
    if isinstance(r, core.Death):
        print('worker died')
        return 1
    st = r['res'][1]
    for l in core.logs_of(st):
        print(l[7], l[2][-60:])
    for s in st['mon']['slice_log']:
        print(dict(zip(SL, s)))
    return 1
