"""C01 - expressions group by precedence, associate to the left, unary binds tightest, operands in order.
The generator owns the expression tree; the text it prints (minimal or redundant parentheses, random case and
whitespace) is parsed by the real parser and the instruction listing must be the post-order of the tree. For an
executable sub-grammar the VM's value of the minimal text must equal its value of the fully parenthesised text and
a float32 reference value. The registry invariant (one precedence per binary name) is checked on the live VM."""
import json
import math

from .. import core
from ..sqfmodel import f32, fmt_num, ModelDeclines

PROP = 'C01'

# synthetic dummy operators (registered the way the CLI's --command-dummy-* options do) so that every level and token class occurs
DUMMIES = []
for _l in range(1, 11):
    DUMMIES.append(['b', 'vhb%d' % _l, _l])
for _l in (2, 5, 8, 10):
    DUMMIES += [['b', 'vhbu%d' % _l, _l], ['u', 'vhbu%d' % _l]]
for _l in (1, 4, 9):
    DUMMIES += [['b', 'vhbn%d' % _l, _l], ['n', 'vhbn%d' % _l]]
for _l in (3, 6, 10):
    DUMMIES += [['b', 'vhbun%d' % _l, _l], ['u', 'vhbun%d' % _l], ['n', 'vhbun%d' % _l]]
DUMMIES += [['u', 'vhun1'], ['n', 'vhun1'], ['u', 'vhu1'], ['n', 'vhn1']]

VARS = ['t', 'tr', 'f', 'fals', 'p', 'priv', '_x', '_Ab', 'zed', 'truex', 'privatex', '_this']
RESERVED = {'private', 'true', 'false'}
SYMBOLS = {'==', '<=', '<', '>=', '>>', '>', '+', '-', '/', '*', '%', '^', '!=', '!', ':', '#', '||', '&&'}


def classes(reg):
    kinds = {}
    prec = {}
    for n in reg['n']:
        kinds.setdefault(n[0], set()).add('N')
    for u in reg['u']:
        kinds.setdefault(u[0], set()).add('U')
    for b in reg['b']:
        kinds.setdefault(b[0], set()).add('B')
        prec.setdefault(b[0], set()).add(b[3])
    return kinds, prec


def is_symbol(name):
    return not (name[0].isalpha() or name[0] == '_')


class TreeGen:
    def __init__(self, rng, kinds, prec, max_depth):
        self.rng = rng
        self.kinds = kinds
        self.prec = {k: min(v) for k, v in prec.items()}
        self.max_depth = max_depth
        import re as _re
        names = [n for n in kinds if n not in RESERVED and (_re.fullmatch(r'[a-z_][a-z0-9_]*', n) or n in SYMBOLS)]
        self.bin = [n for n in names if 'B' in kinds[n]]
        self.un = [n for n in names if 'U' in kinds[n]]
        self.nul = [n for n in names if 'N' in kinds[n]]
        self.by_level = {}
        for n in self.bin:
            self.by_level.setdefault(self.prec[n], []).append(n)
        self.used = set()
        self.pairs = set()
        self.avoid_un_nular = False

    def cls(self, n):
        return ''.join(c for c in 'BUN' if c in self.kinds[n])

    def leaf(self, ctx):
        r = self.rng
        c = r.random()
        if c < 0.3:
            v = r.choice([0, 1, 2, 3, 7, 10, 0.5, 1.5, 100, 1000, 0.25])
            if r.random() < 0.25:
                v = -v
            return ('num', v, r.choice(['dec', 'dec', 'dec', 'hex', 'dot', 'exp']))
        if c < 0.45:
            return ('str', r.choice(['', 'a', 'x"y', 'a b', "it's", '1+2']))
        if c < 0.55:
            return ('bool', r.random() < 0.5)
        if c < 0.8:
            return ('var', r.choice(VARS))
        # nular: a UN/BUN name used as nular must be followed by something that cannot start an operand (decided by the printer context)
        cands = self.nul if ctx.get('nular_any') else [n for n in self.nul if 'U' not in self.kinds[n]]
        if self.avoid_un_nular:
            cands = [n for n in cands if self.cls(n) != 'UN']
        n = r.choice(cands)
        self.used.add(('N', n))
        return ('nular', n)

    def tree(self, depth, ctx=None):
        ctx = ctx or {}
        r = self.rng
        if depth >= self.max_depth or r.random() < 0.18:
            return self.leaf(ctx)
        c = r.random()
        if c < 0.55:
            if r.random() < 0.5:
                level = r.choice(sorted(self.by_level))
                name = r.choice(self.by_level[level])
            else:
                name = r.choice(self.bin)
                level = self.prec[name]
            self.used.add(('B', name))
            # the left operand is followed by a binary operator token: if that token could also start an operand (BU/BUN/BN), a UN/BUN
            # nular on the left would be ambiguous, so such nulars are only allowed before a B-only operator
            lctx = {'nular_any': self.cls(name) == 'B'}
            left = self.tree(depth + 1, lctx)
            right = self.tree(depth + 1, ctx)
            for ch, side in ((left, 'L'), (right, 'R')):
                if ch[0] == 'bin':
                    self.pairs.add((level, ch[2], side))
            return ('bin', name, level, left, right)
        if c < 0.75:
            name = r.choice(self.un)
            if r.random() < 0.12:
                # the unary operators the lexer and the code generator single out (signs, negation) get a share of their own
                special = [u for u in ('+', '-', '!') if u in self.un]
                if special:
                    name = r.choice(special)
            self.used.add(('U', name))
            child = self.tree(depth + 1, ctx)
            if name in ('-', '+') and child[0] == 'num':
                child = ('var', '_x')   # a sign on a number literal is folded into the literal; covered by negative literals
            return ('un', name, child)
        if c < 0.88:
            return ('arr', [self.tree(depth + 1, {'nular_any': True}) for _ in range(r.randint(0, 3))])
        return ('code', [self.tree(depth + 1, {'nular_any': True}) for _ in range(r.randint(0, 3))])


def num_text(rng, v, style):
    a = abs(v)
    if style == 'hex' and a == int(a):
        t = rng.choice(['0x%X', '0x%x', '$%X']) % int(a)
    elif style == 'dot' and 0 < a < 1:
        t = ('%g' % a)[1:]
    elif style == 'exp' and a >= 100 and a == int(a):
        t = '%de%d' % (a // 100, 2) if a % 100 == 0 else fmt_num(a)
    else:
        t = fmt_num(a)
    return ('-' + t) if v < 0 else t


def rcase(rng, name):
    if is_symbol(name):
        return name
    m = rng.random()
    if m < 0.5:
        return name
    if m < 0.7:
        return name.upper()
    return ''.join(c.upper() if rng.random() < 0.5 else c for c in name)


def tokens(rng, t, full, redundant):
    """token list for tree t; full: parenthesise every operator application; redundant: probability of extra parentheses"""
    k = t[0]

    def wrap(toks):
        return ['('] + toks + [')']

    if k == 'num':
        out = [num_text(rng, t[1], t[2])]
    elif k == 'str':
        if "'" not in t[1] and rng.random() < 0.2:
            out = ["'" + t[1] + "'"] if '"' not in t[1] else ['"' + t[1].replace('"', '""') + '"']
        else:
            out = ['"' + t[1].replace('"', '""') + '"']
    elif k == 'bool':
        out = [rcase(rng, 'true' if t[1] else 'false')]
    elif k == 'var':
        out = [t[1]]
    elif k == 'nular':
        out = [rcase(rng, t[1])]
    elif k == 'arr':
        out = ['[']
        for i, c in enumerate(t[1]):
            if i:
                out.append(',')
            out += tokens(rng, c, full, redundant)
        out.append(']')
    elif k == 'code':
        out = ['{']
        for i, c in enumerate(t[1]):
            if i:
                out.append(';')
            out += tokens(rng, c, full, redundant)
        out.append('}')
    elif k == 'un':
        c = t[2]
        ct = tokens(rng, c, full, redundant)
        if c[0] == 'bin' or (full and c[0] in ('un',)):
            ct = wrap(ct)
        out = [rcase(rng, t[1])] + ct
        if full:
            out = wrap(out)
    else:
        name, level, l, r = t[1], t[2], t[3], t[4]
        lt = tokens(rng, l, full, redundant)
        rt = tokens(rng, r, full, redundant)
        if not full:
            if l[0] == 'bin' and l[2] < level:
                lt = wrap(lt)
            if r[0] == 'bin' and r[2] <= level:
                rt = wrap(rt)
        out = lt + [rcase(rng, name)] + rt
        if full:
            out = wrap(out)
    if not full and redundant and rng.random() < redundant and k not in ('num',):
        out = wrap(out)
    return out


def join(rng, toks, tight):
    """joins tokens with random whitespace; a separator is mandatory where two tokens would otherwise fuse"""
    out = []
    prev = None
    for tk in toks:
        if prev is not None:
            a, b = prev[-1], tk[0]
            ident = lambda ch: ch.isalnum() or ch in '_$.'
            need = (ident(a) and ident(b)) or (not ident(a) and not ident(b) and a not in '()[]{},;' and b not in '()[]{},;"\'') \
                or (a in '"\'' and b in '"\'') or (b in '0123456789.$' and not ident(a) and a not in '([{,;') or (a in '0123456789' and b in '.')
            if need or not tight or rng.random() < 0.6:
                out.append(rng.choice([' ', ' ', ' ', '  ', '\n', '\t', ' \n ']))
        out.append(tk)
        prev = tk
    return ''.join(out)


def listing(t):
    k = t[0]
    if k == 'num':
        if t[1] < 0 and t[2] == 'hex' and t[1] == int(t[1]):
            return ['PUSH ' + fmt_num(f32(-t[1])), 'CALLUNARY -']   # the sign of a hex literal is applied as the unary operator
        return ['PUSH ' + fmt_num(f32(t[1]))]
    if k == 'str':
        return ['PUSH "' + t[1].replace('"', '""') + '"']
    if k == 'bool':
        return ['PUSH ' + ('true' if t[1] else 'false')]
    if k == 'var':
        return ['GETVARIABLE ' + t[1]]
    if k == 'nular':
        return ['CALLNULAR ' + t[1]]
    if k == 'arr':
        out = []
        for c in t[1]:
            out += listing(c)
        return out + ['MAKEARRAY %d' % len(t[1])]
    if k == 'code':
        inner = []
        for i, c in enumerate(t[1]):
            if i:
                inner.append('ENDSTATEMENT')
            inner += listing(c)
        return [['PUSHCODE', inner]]
    if k == 'un':
        return listing(t[2]) + ['CALLUNARY ' + t[1]]
    return listing(t[3]) + listing(t[4]) + ['CALLBINARY ' + t[1]]


def signature(t):
    classes_ = []
    depth = [0]

    def walk(n, d):
        depth[0] = max(depth[0], d)
        if n[0] == 'bin':
            classes_.append('B%d' % n[2])
            walk(n[3], d + 1)
            walk(n[4], d + 1)
        elif n[0] == 'un':
            classes_.append('U')
            walk(n[2], d + 1)
        elif n[0] in ('arr', 'code'):
            classes_.append(n[0])
            for c in n[1]:
                walk(c, d + 1)
        else:
            classes_.append(n[0])
    walk(t, 0)
    return '%s|%d' % (','.join(sorted(classes_)), depth[0])


# ---- executable sub-grammar ------------------------------------------------------------------------------------

EXEC_BIN = {'+': 6, '-': 6, '*': 7, '/': 7, '%': 7, 'mod': 7, 'min': 6, 'max': 6, '^': 9, '<': 3, '>': 3, '<=': 3, '>=': 3, '==': 3, '!=': 3, '&&': 2, '||': 1,
            'and': 2, 'or': 1}


class ExecGen:
    def __init__(self, rng, max_depth):
        self.rng = rng
        self.max_depth = max_depth

    def num(self, d):
        r = self.rng
        if d >= self.max_depth or r.random() < 0.25:
            v = r.choice([0, 1, 2, 3, 4, 5, 8, 0.5, 1.5, 10, 16])
            if r.random() < 0.2:
                v = -v
            return ('num', v, 'dec')
        c = r.random()
        if c < 0.75:
            op = r.choice(['+', '-', '*', '/', '%', 'mod', 'min', 'max', '^', '+', '-', '*'])
            return ('bin', op, EXEC_BIN[op], self.num(d + 1), self.num(d + 1))
        if c < 0.9:
            ch = self.num(d + 1)
            if ch[0] == 'num':
                ch = ('bin', '+', 6, ch, ('num', 1, 'dec'))
            return ('un', r.choice(['-', '+', 'abs', 'floor']), ch)
        return ('un', 'count', ('arr', [self.num(d + 2) for _ in range(r.randint(0, 3))]))

    def boolean(self, d):
        r = self.rng
        if d >= self.max_depth or r.random() < 0.15:
            return ('bool', r.random() < 0.5)
        c = r.random()
        if c < 0.5:
            op = r.choice(['<', '>', '<=', '>=', '==', '!='])
            return ('bin', op, 3, self.num(d + 1), self.num(d + 1))
        if c < 0.85:
            op = r.choice(['&&', '||', 'and', 'or'])
            return ('bin', op, EXEC_BIN[op], self.boolean(d + 1), self.boolean(d + 1))
        return ('un', r.choice(['!', 'not']), self.boolean(d + 1))

    def top(self):
        return self.boolean(0) if self.rng.random() < 0.35 else self.num(0)


def _f(x):
    """float32 rounding that keeps everything a float (so that the sign of zero survives integer-valued steps)"""
    if isinstance(x, bool):
        return x
    import struct
    return struct.unpack('f', struct.pack('f', float(x)))[0]


def evaluate(t):
    v = _evaluate(t)
    if isinstance(v, float):
        if v != v or abs(v) > 999999 or (v != 0 and abs(v) < 1e-4):
            raise ModelDeclines('outside the range whose printing is determined')
    return v


def _evaluate(t):
    """float32 reference value; raises ModelDeclines outside the exactly determined region"""
    k = t[0]
    if k == 'num':
        return _f(t[1])
    if k == 'bool':
        return t[1]
    if k == 'arr':
        return [_evaluate(c) for c in t[1]]
    if k == 'un':
        a = _evaluate(t[2])
        if t[1] == '-':
            return _f(-a)
        if t[1] == '+':
            return a
        if t[1] == 'abs':
            return _f(abs(float(a)))
        if t[1] == 'floor':
            fl = float(math.floor(a))
            return _f(math.copysign(0.0, a) if fl == 0 else fl)
        if t[1] in ('!', 'not'):
            return not a
        if t[1] == 'count':
            return float(len(a))
        raise ModelDeclines(t[1])
    op = t[1]
    a, b = _evaluate(t[3]), _evaluate(t[4])
    if op == '+':
        return _f(a + b)
    if op == '-':
        return _f(a - b)
    if op == '*':
        return _f(a * b)
    if op == '/':
        if b == 0:
            raise ModelDeclines('division by zero')
        return _f(a / b)
    if op in ('%', 'mod'):
        if b == 0:
            raise ModelDeclines('mod by zero')
        return _f(math.fmod(a, b))
    if op == 'min':
        return min(a, b)
    if op == 'max':
        return max(a, b)
    if op == '^':
        raise ModelDeclines('pow is not exactly determined')
    if op == '<':
        return a < b
    if op == '>':
        return a > b
    if op == '<=':
        return a <= b
    if op == '>=':
        return a >= b
    if op == '==':
        return a == b
    if op == '!=':
        return a != b
    if op in ('&&', 'and'):
        return a and b
    if op in ('||', 'or'):
        return a or b
    raise ModelDeclines(op)


def repr_val(v):
    if isinstance(v, bool):
        return 'true' if v else 'false'
    return fmt_num(v)


# ---- check ---------------------------------------------------------------------------------------------------------

def main(tier):
    chk = core.Check(PROP, 'exploration', tier)
    runner = core.Runner('asan')
    vmstep = {'op': 'vm', 'vm': 0, 'dummies': DUMMIES, 'max_runtime_ms': 500}
    reg = runner.run([{'steps': [vmstep, {'op': 'registry', 'vm': 0}]}])[0]['res'][1]
    kinds, prec = classes(reg)
    # (iii) registry invariant on the live VM
    for name, ps in sorted(prec.items()):
        chk.count('registry_binary_names')
        if len(ps) != 1:
            chk.violation('registry-precedence|' + name, 'overloads of binary operator %s are registered with different precedences %s' % (name, sorted(ps)), {'name': name})
        elif not (1 <= min(ps) <= 10):
            chk.violation('registry-precedence-range|' + name, 'binary operator %s has precedence %d outside 1..10' % (name, min(ps)), {'name': name})
    n = 6000 if tier == 'quick' else 300000
    depth = 5 if tier == 'quick' else 8
    cases = []
    items = []
    usedB = set()
    pairs = set()
    for i in range(n):
        rng = core.rng('c01', i)
        g = TreeGen(rng, kinds, prec, rng.randint(2, depth))
        g.avoid_un_nular = any(e.get('avoid') == 'un-as-nular' for e in chk.findings.open)
        t = g.tree(0, {'nular_any': True})
        mode = rng.choice(['min', 'min', 'redundant', 'full'])
        toks = tokens(rng, t, mode == 'full', 0.25 if mode == 'redundant' else 0)
        text = join(rng, toks, rng.random() < 0.5)
        cases.append((t, text, mode))
        usedB |= {x[1] for x in g.used if x[0] == 'B'}
        pairs |= g.pairs
        items.append([{'op': 'parse', 'vm': 0, 'src': text}])
    # executable sub-grammar: value of the minimal text == value of the fully parenthesised text == float32 reference
    m = 2500 if tier == 'quick' else 100000
    ecases = []
    for i in range(m):
        rng = core.rng('c01e', i)
        t = ExecGen(rng, rng.randint(2, 5 if tier == 'quick' else 7)).top()
        tmin = join(rng, tokens(rng, t, False, 0), rng.random() < 0.5)
        tfull = join(rng, tokens(rng, t, True, 0), False)
        ecases.append((t, tmin, tfull))
        items.append([{'op': 'run', 'vm': 0, 'src': 'diag_log str [%s]; diag_log str [%s]' % (tmin, tfull), 'reset_ts': True}, {'op': 'parse', 'vm': 0, 'src': tmin}])
    results = core.run_items(runner, [dict(vmstep, auto_renew=True)], items, batch=60, base_cpu_ms=4000, item_cpu_ms=lambda it: 300, counters=chk.counters)
    for i, ((t, text, mode), r) in enumerate(zip(cases, results[:n])):
        chk.evaluations += 1
        chk.sig(signature(t))
        if i < 4:
            chk.sample(text)
        rep = {'text': text, 'mode': mode, 'expected_listing': listing(t)}
        if isinstance(r, core.Death):
            chk.death_is_violation(r, 'parsing `%s`' % text[:200], rep)
            continue
        st = r[0]
        if 'exc' in st:
            chk.violation('escaped-exception', 'C++ exception escaped while parsing `%s`: %s' % (text[:200], st['exc']), rep)
            continue
        if not st.get('ok'):
            msg = [l[2] for l in core.logs_of(st) if l[0] <= 1][:1]
            key = 'rejected|' + mode
            if chk.known_by_sig('rejected|minus-digit') and _has_minus_digit(text):
                continue
            chk.violation(key, 'valid expression rejected by the parser (%s parentheses): `%s` -> %s' % (mode, text[:300], msg), rep)
            continue
        exp = listing(t)
        if st.get('listing') != exp:
            chk.violation('listing-mismatch|' + mode, 'instruction listing of `%s` is not the post-order of its tree: expected %s, got %s' % (
                text[:300], json.dumps(exp)[:400], json.dumps(st.get('listing'))[:400]), dict(rep, observed_listing=st.get('listing')))
    for i, ((t, tmin, tfull), r) in enumerate(zip(ecases, results[n:])):
        chk.evaluations += 1
        chk.sig('exec|' + signature(t))
        rep = {'minimal': tmin, 'full': tfull}
        if isinstance(r, core.Death):
            chk.death_is_violation(r, 'evaluating `%s`' % tmin[:200], rep)
            continue
        st = r[0]
        vals = core.diag_values(core.logs_of(st))
        errs = core.error_logs(core.logs_of(st))
        if errs:
            chk.count('exec_runtime_error')   # e.g. division by zero: both texts must then fail alike, nothing to compare
            continue
        if len(vals) != 2:
            chk.violation('exec-missing', 'evaluation of `%s` printed %s' % (tmin[:200], vals), rep)
            continue
        chk.count('exec_compared')
        pst = r[1]
        if pst.get('ok') and pst.get('listing') != listing(t):
            # an instruction that is missing or misplaced without changing this particular value (a unary plus on a number, say) still shows here
            chk.violation('listing-mismatch|exec', 'instruction listing of `%s` is not the post-order of its tree: expected %s, got %s' % (
                tmin[:300], json.dumps(listing(t))[:400], json.dumps(pst.get('listing'))[:400]), dict(rep, observed_listing=pst.get('listing')))
            continue
        chk.count('exec_listings_compared')
        if vals[0] != vals[1]:
            chk.violation('value-differs-from-parenthesised', 'value of `%s` is %s but the fully parenthesised `%s` gives %s' % (tmin[:200], vals[0], tfull[:200], vals[1]), rep)
            continue
        try:
            ref = '[' + repr_val(evaluate(t)) + ']'
        except (ModelDeclines, OverflowError, ValueError, ZeroDivisionError):
            chk.count('exec_reference_declined')
            continue
        chk.count('exec_reference_compared')
        if vals[0] != ref:
            chk.violation('value-differs-from-reference', 'value of `%s` is %s, float32 reference gives %s' % (tmin[:200], vals[0], ref), dict(rep, reference=ref))
    chk.counters['binary_names_used'] = len(usedB)
    chk.counters['precedence_pairs_seen'] = len(pairs)
    chk.counters['levels_with_operators'] = sorted({min(v) for v in prec.values()})
    for e in chk.findings.open:
        if e.get('probe'):
            r = runner.run([{'steps': [vmstep, {'op': 'parse', 'vm': 0, 'src': e['probe']}]}])[0]
            bad = isinstance(r, core.Death) or not r['res'][1].get('ok') or r['res'][1].get('listing') != e.get('expect_listing')
            if bad:
                chk.known(e['id'])
            else:
                chk.notes.append('known finding %s no longer reproduces' % e['id'])
    for e in chk.findings.fixed:
        if e.get('probe'):
            r = runner.run([{'steps': [vmstep, {'op': 'parse', 'vm': 0, 'src': e['probe']}]}])[0]
            if isinstance(r, core.Death) or r['res'][1].get('listing') != e.get('expect_listing'):
                chk.violation('regressed:' + e['id'], 'fixed finding %s regressed' % e['id'], {'text': e['probe']})
    return chk.finish(
        rule='random expression trees over every registered nular/unary/binary name (plus synthetic dummies so that all 10 levels and the token classes B, BU, BN, BUN, U, UN, N occur), '
             'literals (decimal, exponent, leading dot, hex), variables, arrays, code blocks; printed with minimal, redundant or full parentheses, random case and whitespace; '
             'distinct = (multiset of node classes with levels, depth)',
        min_evaluations=500,
        assumptions=['minimal parentheses: left child needs them iff it is a looser binary, right child iff looser or equal, unary operand iff it is a binary application',
                     'a UN/BUN name is used as nular only where the next token cannot start an operand (the grammar itself is ambiguous otherwise)',
                     'a sign directly on a number literal is part of the literal'])


def _has_minus_digit(text):
    import re
    return re.search(r'[-+][0-9.$]', text) is not None


def replay(path):
    with open(path) as f:
        d = json.load(f)
    rep = d['replay']
    runner = core.Runner('asan', workers=1)
    text = rep.get('text') or rep.get('minimal')
    r = runner.run([{'steps': [{'op': 'vm', 'vm': 0, 'dummies': DUMMIES}, {'op': 'parse', 'vm': 0, 'src': text}]}])[0]
    print(json.dumps(r if isinstance(r, dict) else dict(r))[:2000])
    return 1
