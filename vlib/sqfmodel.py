"""A small SQF sub-language: AST, printer, reference interpreter and random generators.

The reference interpreter executes the AST directly (there is no second parser), following the semantics the
properties state: block values, early exits (exitWith, breakOut), try/catch/throw, iteration constructs,
dynamic scoping of locals, namespaces, and unwinding of runtime errors to except__ handlers.

Nodes are tuples. Expressions:
  ('num', v) ('bool', b) ('str', s) ('nil',) ('arr', [e..]) ('var', name) ('bin', op, a, b) ('un', op, a)
  ('land', a, block) ('lor', a, block)
  ('call', block, arg|None) ('ifte', c, A, B) ('if', c, A) ('switch', e, [([case exprs], block)...], default|None)
  ('try', A, B) ('countc', block, arr) ('selectc', arr, block) ('apply', arr, block) ('findif', arr, block)
  ('except', A, H) ('getvar', ns, name) ('isnil', name)
Statements:
  ('trace', site, e) ('tracev', site, e) ('assign', name, e, private) ('private', [names]) ('params', [names])
  ('exitwith', c, block) ('while', C, body) ('for', var, a, b, step|None, body) ('foreach', body, arr)
  ('scopename', n) ('breakout', n, e|None) ('throw', e) ('expr', e) ('fault', kind, site)
  ('with', ns, block) ('setvar', ns, name, e) ('spawn', block, arg|None, sid) ('sleep', t)
A block is a list of statements.
"""
import math
import struct


class ModelDeclines(Exception):
    """the program left the region the model determines"""
    pass


def f32(x):
    if isinstance(x, bool) or not isinstance(x, (int, float)):
        return x
    try:
        y = struct.unpack('f', struct.pack('f', float(x)))[0]
    except OverflowError:
        return x
    if y == 0:
        return y   # keeps the sign of zero
    if y != y or abs(y) > 999999 or (abs(y) < 1e-4):
        raise ModelDeclines('number outside the range whose printing the model determines')
    return int(y) if y == int(y) and abs(y) < 1e15 else y


# ----------------------------------------------------------------------------------------------
# values

class Nil:
    def __repr__(self):
        return 'nil'


NIL = None


def fmt_num(v):
    if isinstance(v, bool):
        return 'true' if v else 'false'
    if v == 0:
        return '-0' if math.copysign(1.0, v) < 0 else '0'
    if v == int(v) and abs(v) < 1e6:
        return str(int(v))
    s = ('%.6g' % v)
    return s


def sqf_repr(v):
    """what `str v` prints in the VM"""
    if v is None:
        return 'nil'
    if isinstance(v, bool):
        return 'true' if v else 'false'
    if isinstance(v, (int, float)):
        return fmt_num(v)
    if isinstance(v, str):
        return '"' + v.replace('"', '""') + '"'
    if isinstance(v, list):
        return '[' + ','.join(sqf_repr(x) for x in v) + ']'
    raise ValueError('no repr for %r' % (v,))


# ----------------------------------------------------------------------------------------------
# printer

BINPREC = {'||': 1, '&&': 2, '==': 3, '!=': 3, '<': 3, '>': 3, '<=': 3, '>=': 3, 'select': 4, 'pushBack': 4, 'max': 6, 'min': 6, '+': 6, '-': 6,
           '*': 7, '/': 7, 'mod': 7, '%': 7}


def emit_block(block, ind=0):
    if not block:
        return '{}'
    return '{ ' + '; '.join(emit_stmt(s) for s in block) + ' }'


def emit_expr(e):
    k = e[0]
    if k == 'num':
        v = e[1]
        return fmt_num(v) if v >= 0 else '(' + fmt_num(v) + ')'
    if k == 'bool':
        return 'true' if e[1] else 'false'
    if k == 'str':
        return '"' + e[1].replace('"', '""') + '"'
    if k == 'nil':
        return 'nil'
    if k == 'arr':
        return '[' + ', '.join(emit_expr(x) for x in e[1]) + ']'
    if k == 'var':
        return e[1]
    if k == 'bin':
        return '(' + emit_expr(e[2]) + ' ' + e[1] + ' ' + emit_expr(e[3]) + ')'
    if k == 'un':
        return '(' + e[1] + ' ' + emit_expr(e[2]) + ')'
    if k == 'land':
        return '(' + emit_expr(e[1]) + ' && ' + emit_block(e[2]) + ')'
    if k == 'lor':
        return '(' + emit_expr(e[1]) + ' || ' + emit_block(e[2]) + ')'
    if k == 'call':
        if e[2] is None:
            return '(call ' + emit_block(e[1]) + ')'
        return '(' + emit_expr(e[2]) + ' call ' + emit_block(e[1]) + ')'
    if k == 'ifte':
        return '(if (' + emit_expr(e[1]) + ') then ' + emit_block(e[2]) + ' else ' + emit_block(e[3]) + ')'
    if k == 'if':
        return '(if (' + emit_expr(e[1]) + ') then ' + emit_block(e[2]) + ')'
    if k == 'switch':
        parts = []
        for cases, blk in e[2]:
            for c in cases[:-1]:
                parts.append('case ' + emit_expr(c) + ';')
            parts.append('case ' + emit_expr(cases[-1]) + ': ' + emit_block(blk) + ';')
        if e[3] is not None:
            parts.append('default ' + emit_block(e[3]) + ';')
        return '(switch (' + emit_expr(e[1]) + ') do { ' + ' '.join(parts) + ' })'
    if k == 'try':
        return '(try ' + emit_block(e[1]) + ' catch ' + emit_block(e[2]) + ')'
    if k == 'except':
        return '(' + emit_block(e[1]) + ' except__ ' + emit_block(e[2]) + ')'
    if k == 'countc':
        return '(' + emit_block(e[1]) + ' count ' + emit_expr(e[2]) + ')'
    if k == 'selectc':
        return '(' + emit_expr(e[1]) + ' select ' + emit_block(e[2]) + ')'
    if k == 'apply':
        return '(' + emit_expr(e[1]) + ' apply ' + emit_block(e[2]) + ')'
    if k == 'findif':
        return '(' + emit_expr(e[1]) + ' findIf ' + emit_block(e[2]) + ')'
    if k == 'getvar':
        return '(' + e[1] + ' getVariable ' + '"' + e[2] + '")'
    if k == 'isnil':
        return '(isNil "' + e[1] + '")'
    raise ValueError('emit_expr: ' + repr(e))


def emit_stmt(s):
    k = s[0]
    if k == 'trace':
        return 'diag_log str [%d, %s]' % (s[1], emit_expr(s[2]))
    if k == 'tracev':
        return '_vt = %s; diag_log str [%d, if (isNil "_vt") then {"NIL"} else {_vt}]' % (emit_expr(s[2]), s[1])
    if k == 'assign':
        return ('private ' if s[3] else '') + s[1] + ' = ' + emit_expr(s[2])
    if k == 'private':
        if len(s[1]) == 1:
            return 'private "%s"' % s[1][0]
        return 'private [' + ', '.join('"%s"' % n for n in s[1]) + ']'
    if k == 'params':
        return 'params [' + ', '.join('"%s"' % n for n in s[1]) + ']'
    if k == 'exitwith':
        return 'if (' + emit_expr(s[1]) + ') exitWith ' + emit_block(s[2])
    if k == 'while':
        return 'while ' + emit_block(s[1]) + ' do ' + emit_block(s[2])
    if k == 'for':
        st = '' if s[4] is None else ' step ' + emit_expr(s[4])
        return 'for "%s" from %s to %s%s do %s' % (s[1], emit_expr(s[2]), emit_expr(s[3]), st, emit_block(s[5]))
    if k == 'foreach':
        return emit_block(s[1]) + ' forEach ' + emit_expr(s[2])
    if k == 'scopename':
        return 'scopeName "%s"' % s[1]
    if k == 'breakout':
        if s[2] is None:
            return 'breakOut "%s"' % s[1]
        return emit_expr(s[2]) + ' breakOut "%s"' % s[1]
    if k == 'throw':
        return 'throw ' + emit_expr(s[1])
    if k == 'expr':
        return emit_expr(s[1])
    if k == 'fault':
        return FAULTS[s[1]]
    if k == 'with':
        return 'with ' + s[1] + ' do ' + emit_block(s[2])
    if k == 'setvar':
        return s[1] + ' setVariable ["' + s[2] + '", ' + emit_expr(s[3]) + ']'
    if k == 'spawn':
        arg = '0' if s[2] is None else emit_expr(s[2])
        return arg + ' spawn ' + emit_block(s[1])
    if k == 'sleep':
        return 'sleep ' + fmt_num(s[1])
    raise ValueError('emit_stmt: ' + repr(s))


def emit_program(block):
    return '\n'.join(emit_stmt(s) + ';' for s in block)


# erroring operations (each raises an error-level diagnostic in the VM); text fragments expected in the diagnostic
FAULTS = {
    'select_oob': '[1] select 5',
    'select_neg': '[1,2] select (-1)',
    'type_mismatch': '1 + "a"',
    'dummy_op': 'forceRespawn 1',
    'unknown_unary': 'toUpper 5',
    'compile_bad': 'compile "1 +* 2"',
    'count_nonbool': '{5} count [1]',
    'throw_uncaught': 'throw "boom"',
    'select_str': '"abc" select [1,2,3,4]',
}


# ----------------------------------------------------------------------------------------------
# reference interpreter

class ExitScope(Exception):
    def __init__(self, value):
        self.value = value


class BreakOut(Exception):
    def __init__(self, name, value):
        self.name = name
        self.value = value


class Throw(Exception):
    def __init__(self, value):
        self.value = value


class SqfError(Exception):
    def __init__(self, kind, site):
        self.kind = kind
        self.site = site


class Frame:
    __slots__ = ('vars', 'name', 'ns')

    def __init__(self, ns):
        self.vars = {}
        self.name = None
        self.ns = ns


class Interp:
    def __init__(self, max_steps=200000):
        self.trace = []           # list of (site, repr string)
        self.namespaces = {'missionnamespace': {}, 'uinamespace': {}, 'parsingnamespace': {}, 'profilenamespace': {}}
        self.frames = []
        self.steps = 0
        self.max_steps = max_steps
        self.spawned = []         # (block, arg, sid)
        self.handler_entries = {}  # site of except construct -> count
        self.error = None         # unhandled SqfError of the current script
        self.cur_script = 0
        self.script_of_site = {}
        self.handled = []
        self.try_depth = 0
        self.decline_fault_in_try = False
        self.strict_private = False

    # --- variables
    def lookup(self, name):
        n = name.lower()
        if n.startswith('_'):
            for f in reversed(self.frames):
                if n in f.vars:
                    return f.vars[n]
            return None
        return self.namespaces[self.frames[-1].ns].get(n)

    def assign(self, name, val, private=False):
        n = name.lower()
        if n.startswith('_'):
            if not private:
                for f in reversed(self.frames):
                    if n in f.vars:
                        f.vars[n] = val
                        return
            self.frames[-1].vars[n] = val
        else:
            if private:
                raise ModelDeclines('private global')
            d = self.namespaces[self.frames[-1].ns]
            if val is None:
                d.pop(n, None)   # assigning nil removes? (kept as nil entry in the VM: isNil is the only observation used)
                d[n] = None
            else:
                d[n] = val

    def tick(self):
        self.steps += 1
        if self.steps > self.max_steps:
            raise ModelDeclines('too many steps')

    # --- blocks
    def push(self, ns=None, vars=None):
        f = Frame(ns if ns is not None else (self.frames[-1].ns if self.frames else 'missionnamespace'))
        if vars:
            f.vars.update(vars)
        self.frames.append(f)
        return f

    def run_block(self, block, vars=None, ns=None):
        """executes block in a new frame; returns (value, exited) - exited: the frame was left by exitWith"""
        f = self.push(ns, vars)
        depth = len(self.frames)
        try:
            return self.exec_stmts(block), False
        except ExitScope as ex:
            return ex.value, True
        except BreakOut as bo:
            if f.name is not None and f.name == bo.name:
                return bo.value, True
            raise
        finally:
            del self.frames[depth - 1:]

    def exec_stmts(self, block):
        val = None
        for s in block:
            val = self.exec_stmt(s)
        return val

    def exec_stmt(self, s):
        self.tick()
        k = s[0]
        if k == 'trace':
            v = self.ev(s[2])
            self.trace.append((s[1], sqf_repr([s[1], v])))
            self.script_of_site[s[1]] = self.cur_script
            return None
        if k == 'tracev':
            v = self.ev(s[2])
            self.assign('_vt', v)
            self.trace.append((s[1], sqf_repr([s[1], 'NIL' if v is None else v])))
            self.script_of_site[s[1]] = self.cur_script
            return None
        if k == 'assign':
            self.assign(s[1], self.ev(s[2]), s[3])
            return None
        if k == 'private':
            for n in s[1]:
                if n.lower() in self.frames[-1].vars and self.strict_private:
                    raise ModelDeclines('private "x" for a name already bound in the same scope (value afterwards not fixed by the statement)')
                self.frames[-1].vars[n.lower()] = None
            return None
        if k == 'params':
            this = self.lookup('_this')
            arr = this if isinstance(this, list) else [this]
            for i, n in enumerate(s[1]):
                self.frames[-1].vars[n.lower()] = arr[i] if i < len(arr) else None
            return None
        if k == 'exitwith':
            c = self.ev(s[1])
            if c is True:
                v, _ = self.run_block(s[2])
                raise ExitScope(v)
            return None
        if k == 'while':
            f = self.push()
            depth = len(self.frames)
            try:
                while True:
                    self.tick()
                    f.vars = {}
                    f.name = None
                    c = self.exec_stmts(s[1])
                    if c is not True:
                        break
                    f.vars = {}
                    f.name = None
                    self.exec_stmts(s[2])
            except ExitScope:
                pass
            except BreakOut as bo:
                if f.name is not None and f.name == bo.name:
                    pass
                else:
                    raise
            finally:
                del self.frames[depth - 1:]
            return None
        if k == 'for':
            a = self.ev(s[2])
            b = self.ev(s[3])
            st = 1 if s[4] is None else self.ev(s[4])
            if st == 0:
                raise ModelDeclines('step 0')
            if (st > 0 and a > b) or (st < 0 and a < b):
                return None
            f = self.push()
            depth = len(self.frames)
            try:
                i = a
                while True:
                    self.tick()
                    f.vars = {s[1].lower(): i}
                    f.name = None
                    self.exec_stmts(s[5])
                    i = i + st
                    if (st > 0 and i > b) or (st < 0 and i < b):
                        break
            except ExitScope:
                pass
            except BreakOut as bo:
                if not (f.name is not None and f.name == bo.name):
                    raise
            finally:
                del self.frames[depth - 1:]
            return None
        if k == 'foreach':
            arr = self.ev(s[2])
            if not isinstance(arr, list):
                raise ModelDeclines('forEach over non-array')
            if arr:
                f = self.push()
                depth = len(self.frames)
                try:
                    for i, x in enumerate(list(arr)):
                        self.tick()
                        f.vars = {'_x': x, '_foreachindex': i}
                        f.name = None
                        self.exec_stmts(s[1])
                except ExitScope:
                    pass
                except BreakOut as bo:
                    if not (f.name is not None and f.name == bo.name):
                        raise
                finally:
                    del self.frames[depth - 1:]
            return None
        if k == 'scopename':
            if self.frames[-1].name is not None:
                raise ModelDeclines('scopeName twice')
            self.frames[-1].name = s[1]
            return None
        if k == 'breakout':
            v = None if s[2] is None else self.ev(s[2])
            raise BreakOut(s[1], v)
        if k == 'throw':
            raise Throw(self.ev(s[1]))
        if k == 'expr':
            return self.ev(s[1])
        if k == 'fault':
            if self.try_depth > 0 and self.decline_fault_in_try:
                raise ModelDeclines('fault dynamically inside try (recorded defect, avoided)')
            if s[1] == 'throw_uncaught' and self.try_depth > 0:
                # a throw dynamically inside try { } is what try/catch is for: the nearest catch takes it
                raise Throw('boom%d' % s[2])
            raise SqfError(s[1], s[2])
        if k == 'with':
            v, _ = self.run_block(s[2], ns=s[1].lower())
            return v
        if k == 'setvar':
            self.namespaces[s[1].lower()][s[2].lower()] = self.ev(s[3])
            return None
        if k == 'spawn':
            arg = 0 if s[2] is None else self.ev(s[2])
            self.spawned.append((s[1], arg, s[3]))
            return None
        if k == 'sleep':
            return None
        raise ValueError('exec_stmt: ' + repr(s))

    # --- expressions
    def ev(self, e):
        k = e[0]
        if k in ('num', 'bool', 'str'):
            return e[1]
        if k == 'nil':
            return None
        if k == 'arr':
            return [self.ev(x) for x in e[1]]
        if k == 'var':
            return self.lookup(e[1])
        if k == 'bin':
            a = self.ev(e[2])
            b = self.ev(e[3])
            return self.binop(e[1], a, b)
        if k == 'un':
            a = self.ev(e[2])
            if e[1] == '!':
                return not a
            if e[1] == 'count':
                return len(a)
            if e[1] == '-':
                return -a
            raise ValueError(e[1])
        if k == 'land':
            a = self.ev(e[1])
            if not a:
                return False
            v, _ = self.run_block(e[2])
            return v
        if k == 'lor':
            a = self.ev(e[1])
            if a:
                return True
            v, _ = self.run_block(e[2])
            return v
        if k == 'call':
            if e[2] is None:
                v, _ = self.run_block(e[1], {'_this': self.lookup('_this')})
            else:
                v, _ = self.run_block(e[1], {'_this': self.ev(e[2])})
            return v
        if k == 'ifte':
            c = self.ev(e[1])
            v, _ = self.run_block(e[2] if c else e[3])
            return v
        if k == 'if':
            c = self.ev(e[1])
            if c:
                v, _ = self.run_block(e[2])
                return v
            return None
        if k == 'switch':
            sv = self.ev(e[1])
            target = None
            for cases, blk in e[2]:
                hit = False
                for c in cases:
                    if self.values_equal(self.ev(c), sv):
                        hit = True
                if hit:
                    target = blk
                    break
            if target is None:
                target = e[3]
            if target is None:
                return None
            v, _ = self.run_block(target)
            return v
        if k == 'try':
            depth = len(self.frames)
            try:
                self.try_depth += 1
                try:
                    v, _ = self.run_block(e[1])
                finally:
                    self.try_depth -= 1
                return v
            except Throw as t:
                del self.frames[depth:]
                self.try_depth += 1   # the catch code runs in the try frame, which still carries the catch behaviour
                try:
                    v, _ = self.run_block(e[2], {'_exception': t.value})
                finally:
                    self.try_depth -= 1
                return v
        if k == 'except':
            depth = len(self.frames)
            try:
                v, _ = self.run_block(e[1])
                return v
            except (SqfError, Throw) as err:
                del self.frames[depth:]
                if isinstance(err, Throw):
                    raise ModelDeclines('throw into except__')
                self.handled.append(err)
                v, _ = self.run_block(e[2], {'_exception': ('ERR', err.kind)})
                return v
        if k in ('countc', 'selectc', 'apply', 'findif'):
            arr = self.ev(e[2] if k == 'countc' else e[1])
            blk = e[1] if k == 'countc' else e[2]
            out = []
            cnt = 0
            found = -1
            if arr:
                f = self.push()
                depth = len(self.frames)
                try:
                    for i, x in enumerate(list(arr)):
                        self.tick()
                        f.vars = {'_x': x}
                        f.name = None
                        r = self.exec_stmts(blk)
                        if k == 'apply':
                            out.append(r)
                        elif k == 'countc':
                            if r is True:
                                cnt += 1
                            elif r is not False:
                                raise ModelDeclines('count result not boolean')
                        elif k == 'selectc':
                            if r is True:
                                out.append(x)
                            elif r is not False:
                                raise ModelDeclines('select result not boolean')
                        elif k == 'findif':
                            if r is True:
                                found = i
                                break
                            elif r is not False:
                                raise ModelDeclines('findIf result not boolean')
                except ExitScope:
                    raise ModelDeclines('exitWith directly in iteration code')
                except BreakOut as bo:
                    if f.name is not None and f.name == bo.name:
                        del self.frames[depth - 1:]
                        return bo.value
                    raise
                finally:
                    del self.frames[depth - 1:]
            if k == 'countc':
                return cnt
            if k == 'findif':
                return found
            return out
        if k == 'getvar':
            return self.namespaces[e[1].lower()].get(e[2].lower())
        if k == 'isnil':
            return self.lookup(e[1]) is None
        raise ValueError('ev: ' + repr(e))

    @staticmethod
    def values_equal(a, b):
        if isinstance(a, bool) != isinstance(b, bool):
            return False
        if isinstance(a, str) and isinstance(b, str):
            return a == b
        return type(a) in (int, float) and type(b) in (int, float) and a == b or (type(a) == type(b) and a == b)

    def binop(self, op, a, b):
        if op == '+':
            if isinstance(a, list):
                return a + b
            return f32(a + b)
        if op == '-':
            return f32(a - b)
        if op == '*':
            return f32(a * b)
        if op == 'mod':
            return f32(math.fmod(a, b))
        if op == 'min':
            return min(a, b)
        if op == 'max':
            return max(a, b)
        if op == '<':
            return a < b
        if op == '>':
            return a > b
        if op == '<=':
            return a <= b
        if op == '>=':
            return a >= b
        if op == '==':
            return a == b
        if op == '!=':
            return a != b
        if op == '&&':
            return a and b
        if op == '||':
            return a or b
        if op == 'select':
            i = int(math.floor(b + 0.5))
            if i < 0 or i >= len(a):
                raise ModelDeclines('select out of range')
            return a[i]
        raise ValueError(op)

    # --- whole programs
    def run_script(self, block, vars=None):
        """runs one script to its end; returns ('ok', value) | ('error', SqfError) | ('throw', value)"""
        self.frames = []
        try:
            v, _ = self.run_block(block, vars)
            return ('ok', v)
        except SqfError as e:
            return ('error', e)
        except Throw as t:
            return ('error', SqfError('throw_uncaught', None))
        except BreakOut:
            raise ModelDeclines('breakOut to unknown scope')
        finally:
            self.frames = []


# ----------------------------------------------------------------------------------------------
# generator

class Gen:
    """Random programs over the constructs of C02. Type discipline: _n* numeric, _b* boolean, _a* arrays of numbers,
    _s* strings; every variable is initialised in the prelude, so programs are error-free by construction."""

    def __init__(self, rng, max_depth=4, max_stmts=40, avoid=()):
        self.rng = rng
        self.max_depth = max_depth
        self.budget = max_stmts
        self.avoid = set(avoid)
        self.site = 0
        self.uid = 0
        self.features = set()
        self.pairs = set()
        self.nums = ['_n0', '_n1', '_n2']
        self.bools = ['_b0', '_b1']
        self.arrs = ['_a0', '_a1']
        self.strs = ['_s0']

    def next_site(self):
        self.site += 1
        return self.site

    def fresh(self, p):
        self.uid += 1
        return '%s%d' % (p, self.uid)

    # ---- pure expressions
    def num(self, ctx, d=0):
        r = self.rng
        c = r.random()
        pool = list(self.nums) + ctx.get('numvars', [])
        if d >= 2 or c < 0.35:
            if r.random() < 0.5:
                return ('num', r.choice([0, 1, 2, 3, 4, 5, 0.5, 1.5, -1, -2]))
            return ('var', r.choice(pool))
        if c < 0.7:
            return ('bin', r.choice(['+', '-', '+', 'min', 'max']), self.num(ctx, d + 1), self.num(ctx, d + 1))
        if c < 0.8:
            return ('bin', '*', self.num(ctx, d + 1), ('num', r.choice([2, 3, 0.5])))
        if c < 0.9:
            return ('un', 'count', self.arr(ctx, d + 1))
        return ('bin', 'mod', self.num(ctx, d + 1), ('num', r.choice([2, 3])))

    def boolean(self, ctx, d=0):
        r = self.rng
        c = r.random()
        if d >= 2 or c < 0.25:
            if r.random() < 0.4:
                return ('bool', r.random() < 0.5)
            return ('var', r.choice(self.bools))
        if c < 0.75:
            return ('bin', r.choice(['<', '>', '<=', '>=', '==', '!=']), self.num(ctx, d + 1), self.num(ctx, d + 1))
        if c < 0.85:
            return ('un', '!', self.boolean(ctx, d + 1))
        return ('bin', r.choice(['&&', '||']), self.boolean(ctx, d + 1), self.boolean(ctx, d + 1))

    def arr(self, ctx, d=0):
        r = self.rng
        c = r.random()
        if c < 0.4:
            return ('var', r.choice(self.arrs))
        if c < 0.9 or d >= 2:
            return ('arr', [self.num(ctx, 2) for _ in range(r.randint(0, 4))])
        return ('bin', '+', self.arr(ctx, d + 1), self.arr(ctx, d + 1))

    def string(self, ctx):
        r = self.rng
        if r.random() < 0.5:
            return ('var', r.choice(self.strs))
        return ('str', r.choice(['a', 'b', 'c', 'A', 'x"y', '']))

    def anyval(self, ctx):
        c = self.rng.random()
        if c < 0.5:
            return self.num(ctx)
        if c < 0.7:
            return self.boolean(ctx)
        if c < 0.85:
            return self.arr(ctx)
        return self.string(ctx)

    # ---- blocks
    def feature(self, name, ctx):
        self.features.add(name)
        if ctx.get('outer'):
            self.pairs.add((ctx['outer'], name))

    def sub(self, ctx, outer, **kw):
        c = dict(ctx)
        c['outer'] = outer
        c['depth'] = ctx['depth'] + 1
        c['first'] = True
        c['direct_iter'] = False
        c['in_loop_frame'] = False
        c.update(kw)
        return c

    def value_block(self, ctx, kind):
        """a block whose last statement is an expression of the wanted kind: 'num' | 'bool' | 'any'"""
        b = self.block(ctx, room=self.rng.randint(0, 3))
        if kind == 'num':
            b.append(('expr', self.num(ctx)))
        elif kind == 'bool':
            b.append(('expr', self.boolean(ctx)))
        else:
            b.append(('expr', self.anyval(ctx)))
        return b

    def maybe_value_block(self, ctx):
        if self.rng.random() < 0.75:
            return self.value_block(ctx, 'any')
        # a block whose last statement has no value (or an empty block): its value is nil
        b = self.block(ctx, room=self.rng.randint(0, 3))
        if b:
            b.append(('trace', self.next_site(), self.num(ctx)))
        return b

    def construct(self, ctx, want='any'):
        """a construct used as an expression; want in any|num: the type the enclosing expression needs"""
        r = self.rng
        if ctx['depth'] >= self.max_depth or self.budget <= 0:
            return self.num(ctx) if want == 'num' else self.anyval(ctx)
        kinds = ['call', 'callarg', 'ifte', 'switch', 'try', 'land', 'countc', 'selectc', 'apply', 'findif']
        if want == 'any':
            kinds.append('if')
        k = r.choice(kinds)
        if want == 'num':
            ctx = dict(ctx, exit_kind='num', scopes=[], in_try=False)
        vb = (lambda c: self.value_block(c, 'num')) if want == 'num' else self.maybe_value_block
        if k == 'call':
            self.feature('call', ctx)
            return ('call', vb(self.sub(ctx, 'call')), None)
        if k == 'callarg':
            self.feature('call', ctx)
            c2 = self.sub(ctx, 'call', numvars=ctx.get('numvars', []))
            blk = [('assign', '_p', ('bin', 'select', ('var', '_this'), ('num', 0)), True)] if r.random() < 0.5 else []
            c3 = dict(c2)
            if blk:
                c3['numvars'] = c2.get('numvars', []) + ['_p']
            return ('call', blk + vb(c3), ('arr', [self.num(ctx), self.num(ctx)]))
        if k == 'ifte':
            self.feature('ifte', ctx)
            return ('ifte', self.boolean(ctx), vb(self.sub(ctx, 'ifte')), vb(self.sub(ctx, 'ifte')))
        if k == 'if':
            self.feature('if', ctx)
            return ('if', self.boolean(ctx), vb(self.sub(ctx, 'if')))
        if k == 'switch':
            self.feature('switch', ctx)
            ncase = r.randint(1, 4)
            use_str = r.random() < 0.3
            cases = []
            for _ in range(ncase):
                labels = [(('str', r.choice(['a', 'b', 'c'])) if use_str else ('num', r.choice([0, 1, 2, 3]))) for _ in range(r.choice([1, 1, 2, 3]))]
                if len(labels) > 1:
                    self.features.add('switch-fallthrough')
                cases.append((labels, vb(self.sub(ctx, 'switch'))))
            default = vb(self.sub(ctx, 'switch')) if (want == 'num' or r.random() < 0.6) else None
            if default is not None:
                self.features.add('switch-default')
            sv = (('str', r.choice(['a', 'b', 'c', 'd'])) if use_str else ('bin', 'mod', self.num(ctx), ('num', 4)))
            if not use_str:
                # keep the switch value a small non-negative integer so that cases can match
                sv = ('bin', 'max', ('num', 0), ('bin', 'min', ('num', 3), ('bin', '-', self.num(ctx), ('bin', 'mod', self.num(ctx), ('num', 1)))))
                sv = ('num', r.choice([0, 1, 2, 3])) if r.random() < 0.5 else ('var', '_k')
            return ('switch', sv, cases, default)
        if k == 'try':
            self.feature('try', ctx)
            c2 = self.sub(ctx, 'try', in_try=(want != 'num'))
            a = vb(c2)
            b = vb(self.sub(ctx, 'catch', excvar=True, in_try=(ctx.get('in_try') and 'throw-in-catch' not in self.avoid)))
            return ('try', a, b)
        if k == 'land':
            self.feature('lazy', ctx)
            if want == 'num':
                return ('ifte', (r.choice(['land', 'lor']), self.boolean(ctx), self.value_block(self.sub(ctx, 'lazy', exit_kind='bool', scopes=[], in_try=False), 'bool')), [('expr', self.num(ctx))], [('expr', self.num(ctx))])
            return (r.choice(['land', 'lor']), self.boolean(ctx), self.value_block(self.sub(ctx, 'lazy', exit_kind='bool', scopes=[], in_try=False), 'bool'))
        if k in ('countc', 'selectc', 'findif'):
            self.feature(k, ctx)
            c2 = self.sub(ctx, k, direct_iter=True, in_loop_frame=True, numvars=ctx.get('numvars', []) + ['_x'])
            blk = self.value_block(c2, 'bool')
            a = self.arr(ctx)
            if k == 'countc':
                return ('countc', blk, a)
            e = (k, a, blk)
            if want == 'num':
                return e if k == 'findif' else ('un', 'count', e)
            return e
        if k == 'apply':
            self.feature('apply', ctx)
            c2 = self.sub(ctx, 'apply', direct_iter=True, in_loop_frame=True, numvars=ctx.get('numvars', []) + ['_x'])
            e = ('apply', self.arr(ctx), self.value_block(c2, 'num'))
            return ('un', 'count', e) if want == 'num' else e
        raise ValueError(k)

    def block(self, ctx, room=None):
        r = self.rng
        n = room if room is not None else r.randint(1, 5)
        out = []
        ctx = dict(ctx)
        for i in range(n):
            if self.budget <= 0:
                break
            out += self.stmt(ctx)
            ctx['first'] = False
        return out

    def stmt(self, ctx):
        r = self.rng
        self.budget -= 1
        deep = ctx['depth'] >= self.max_depth
        choices = ['trace', 'trace', 'assign', 'assign']
        if not deep:
            choices += ['tracev', 'tracev', 'tracev', 'assignc', 'while', 'for', 'foreach', 'ifstmt']
            if not ctx.get('direct_iter'):
                choices += ['exitwith']
            if ctx.get('first') and not (ctx.get('in_loop_frame') and 'scopename-in-loop' in self.avoid):
                choices += ['scopename', 'scopename']
        if ctx.get('scopes') and not ctx.get('exit_kind'):
            choices += ['breakout', 'breakout']
        if ctx.get('in_try') and not ctx.get('exit_kind'):
            choices += ['throw', 'throw']
        k = r.choice(choices)
        if k == 'trace':
            return [('trace', self.next_site(), self.anyval(ctx))]
        if k == 'tracev':
            return [('tracev', self.next_site(), self.construct(dict(ctx, exit_kind=None, scopes=[], in_try=False) if ctx.get('exit_kind') else ctx))]
        if k == 'assign':
            t = r.random()
            if t < 0.6:
                return [('assign', r.choice(self.nums), self.num(ctx), False)]
            if t < 0.8:
                return [('assign', r.choice(self.bools), self.boolean(ctx), False)]
            return [('assign', r.choice(self.arrs), ('arr', [self.num(ctx, 2) for _ in range(r.randint(0, 4))]), False)]
        if k == 'assignc':
            # a construct as operand of an enclosing expression
            c = self.construct(dict(ctx, exit_kind='num', scopes=[], in_try=False), want='num')
            self.features.add('construct-as-operand')
            if r.random() < 0.5:
                e = ('bin', r.choice(['+', '-']), self.num(ctx), c)
            else:
                e = ('bin', r.choice(['+', 'max']), c, self.num(ctx))
            return [('assign', r.choice(self.nums), e, False), ('trace', self.next_site(), ('var', self.nums[0]))]
        if k == 'ifstmt':
            self.feature('if', ctx)
            if r.random() < 0.5:
                return [('expr', ('if', self.boolean(ctx), self.block(self.sub(ctx, 'if'))))]
            return [('expr', ('ifte', self.boolean(ctx), self.block(self.sub(ctx, 'ifte')), self.block(self.sub(ctx, 'ifte'))))]
        if k == 'exitwith':
            self.feature('exitwith', ctx)
            if ctx.get('exit_kind') in ('num', 'bool'):
                return [('exitwith', self.boolean(ctx), self.value_block(self.sub(ctx, 'exitwith'), ctx['exit_kind']))]
            return [('exitwith', self.boolean(ctx), self.maybe_value_block(self.sub(ctx, 'exitwith')))]
        if k == 'while':
            self.feature('while', ctx)
            w = self.fresh('_w')
            n = r.randint(0, 4)
            c2 = self.sub(ctx, 'while', in_loop_frame=True)
            cond = []
            if r.random() < 0.4:
                cond.append(('trace', self.next_site(), ('num', 0)))
            cond.append(('expr', ('bin', '<', ('var', w), ('num', n))))
            body = [('assign', w, ('bin', '+', ('var', w), ('num', 1)), False)] + self.block(c2)
            return [('assign', w, ('num', 0), False), ('while', cond, body)]
        if k == 'for':
            self.feature('for', ctx)
            v = self.fresh('_i')
            a = r.choice([0, 1, 2, 3, -1])
            st = r.choice([None, None, 1, 2, -1, -2, 0.5, -0.5])
            if st is not None and st < 0:
                b = a - r.choice([0, 1, 2, 3, -1])
            else:
                b = a + r.choice([0, 1, 2, 3, -1])
            c2 = self.sub(ctx, 'for', in_loop_frame=True, numvars=ctx.get('numvars', []) + [v])
            if st is not None:
                self.features.add('for-step' + ('-neg' if st < 0 else '-frac' if st != int(st) else ''))
            if a == b:
                self.features.add('for-single-trip')
            body = [('trace', self.next_site(), ('var', v))] + self.block(c2)
            return [('for', v, ('num', a), ('num', b), None if st is None else ('num', st), body)]
        if k == 'foreach':
            self.feature('foreach', ctx)
            c2 = self.sub(ctx, 'foreach', in_loop_frame=True, numvars=ctx.get('numvars', []) + ['_x', '_forEachIndex'])
            body = [('trace', self.next_site(), ('arr', [('var', '_x'), ('var', '_forEachIndex')]))] + self.block(c2)
            return [('foreach', body, self.arr(ctx))]
        if k == 'scopename':
            self.feature('scopename', ctx)
            name = self.fresh('sc')
            if ctx.get('in_loop_frame'):
                # a name given inside a loop body is never targeted: whether breakOut then ends the iteration or the
                # whole loop is not fixed by the property statement
                self.features.add('scopename-in-loop')
            else:
                ctx['scopes'] = ctx.get('scopes', []) + [name]
            return [('scopename', name)]
        if k == 'breakout':
            if ctx.get('no_breakout'):
                return [('trace', self.next_site(), self.anyval(ctx))]
            self.feature('breakout', ctx)
            name = r.choice(ctx['scopes'])
            val = None if r.random() < 0.4 else self.anyval(ctx)
            if val is not None:
                self.features.add('breakout-value')
            st = ('breakout', name, val)
            if r.random() < 0.6:
                return [('expr', ('if', self.boolean(ctx), [st]))]
            return [st]
        if k == 'throw':
            self.feature('throw', ctx)
            st = ('throw', self.anyval(ctx))
            if r.random() < 0.6:
                return [('expr', ('if', self.boolean(ctx), [st]))]
            return [st]
        raise ValueError(k)

    def program(self):
        r = self.rng
        pre = []
        for n in self.nums:
            pre.append(('assign', n, ('num', r.choice([0, 1, 2, 3])), True))
        for b in self.bools:
            pre.append(('assign', b, ('bool', r.random() < 0.5), True))
        for a in self.arrs:
            pre.append(('assign', a, ('arr', [('num', r.choice([0, 1, 2, 3, 4])) for _ in range(r.randint(0, 4))]), True))
        pre.append(('assign', '_s0', ('str', r.choice(['a', 'b'])), True))
        pre.append(('assign', '_k', ('num', r.choice([0, 1, 2, 3])), True))
        pre.append(('assign', '_vt', ('num', 0), True))
        ctx = {'depth': 0, 'first': False, 'scopes': [], 'outer': None}
        body = self.block(ctx, room=r.randint(3, 8))
        while self.budget > 5 and len(body) < 12:
            body += self.block(ctx, room=2)
        body.append(('trace', self.next_site(), ('arr', [('var', n) for n in self.nums])))
        return pre + body


class GenHostile(Gen):
    """C05: blocks that exit early / leave extra values, embedded in half-built array and arithmetic expressions."""

    def __init__(self, rng, max_depth=4, max_stmts=40, avoid=()):
        Gen.__init__(self, rng, max_depth, max_stmts, avoid)

    def embedded(self, ctx):
        """[a, <construct>, b] or a + <construct>: the enclosing expression has pending operands while the block runs"""
        r = self.rng
        allow_bo = 'breakout-operands' not in self.avoid
        c2 = dict(ctx, hostile=True)
        if not allow_bo or ctx.get('exit_kind'):
            c2['scopes'] = []
            c2['in_try'] = False
        form = r.random()
        if form < 0.6:
            # any-typed element inside an array literal, possibly nested
            c2['exit_kind'] = None
            inner = self.construct(c2)
            arr = [self.num(ctx), inner, self.num(ctx)]
            if r.random() < 0.3:
                arr = [self.num(ctx), ('arr', arr), self.construct(c2) if r.random() < 0.5 else self.num(ctx)]
            self.features.add('embed-array')
            return ('arr', arr)
        self.features.add('embed-arith')
        c = self.construct(dict(c2, exit_kind='num', scopes=[], in_try=False), want='num')
        if r.random() < 0.5:
            return ('bin', r.choice(['+', '-']), self.num(ctx), c)
        return ('bin', '+', ('bin', '*', self.num(ctx), ('num', 2)), ('bin', '-', c, self.num(ctx)))

    def stmt(self, ctx):
        r = self.rng
        if ctx['depth'] < self.max_depth and self.budget > 0 and r.random() < 0.35:
            self.budget -= 1
            return [('tracev', self.next_site(), self.embedded(ctx))]
        if ctx.get('hostile') and r.random() < 0.15:
            # extra values left behind by a statement: an expression statement in the middle of a block
            self.budget -= 1
            self.features.add('extra-values')
            return [('expr', self.anyval(ctx)), ('expr', ('arr', [self.num(ctx), self.num(ctx)]))]
        return Gen.stmt(self, ctx)


# ----------------------------------------------------------------------------------------------
# C04: one injected fault, except__ handlers

FAULT_SNIPPETS = {
    'select_oob': '[1] select (5 + %d)',
    'type_mismatch': '%d + "a"',
    'dummy_op': 'forceRespawn %d',
    'unknown_unary': 'toUpper %d',
    'count_nonbool': '{%d} count [1]',
    'throw_uncaught': 'throw "boom%d"',
    'select_neg': '[1, 2] select (-%d)',
    'set_neg': '[1, 2] set [-%d, 0]',
    'foreach_nonarray': '{ %d } forEach 5',
}


def _emit_fault(s):
    return FAULT_SNIPPETS[s[1]] % s[2]


_old_emit_stmt = emit_stmt


def emit_stmt(s):  # noqa: F811  (extends the printer with the C04 statement kinds)
    if s[0] == 'fault':
        return _emit_fault(s)
    if s[0] == 'excprobe':
        return 'diag_log ("EXC|%d|" + str _exception)' % s[1]
    return _old_emit_stmt(s)


_old_exec = Interp.exec_stmt


def _exec_stmt(self, s):
    if s[0] == 'excprobe':
        self.tick()
        self.trace.append((s[1], 'EXC|%d|' % s[1]))
        self.script_of_site[s[1]] = self.cur_script
        return None
    return _old_exec(self, s)


Interp.exec_stmt = _exec_stmt


def walk_blocks(block, path, out):
    """collects (block, path) for every statement list; path = list of (kind, parent_list, index) of enclosing statements"""
    out.append((block, list(path)))
    for i, s in enumerate(block):
        _walk_stmt(s, path + [(s[0], block, i)], out)


def _walk_stmt(s, path, out):
    k = s[0]
    if k in ('trace', 'tracev'):
        _walk_expr(s[2], path, out)
    elif k == 'assign':
        _walk_expr(s[2], path, out)
    elif k == 'exitwith':
        _walk_expr(s[1], path, out)
        walk_blocks(s[2], path, out)
    elif k == 'while':
        walk_blocks(s[1], path, out)
        walk_blocks(s[2], path, out)
    elif k == 'for':
        walk_blocks(s[5], path, out)
    elif k == 'foreach':
        walk_blocks(s[1], path, out)
        _walk_expr(s[2], path, out)
    elif k in ('throw', 'expr'):
        _walk_expr(s[1], path, out)
    elif k == 'breakout':
        if s[2] is not None:
            _walk_expr(s[2], path, out)
    elif k == 'with':
        walk_blocks(s[2], path, out)
    elif k == 'setvar':
        _walk_expr(s[3], path, out)
    elif k == 'spawn':
        walk_blocks(s[1], path, out)


def _walk_expr(e, path, out):
    k = e[0]
    if k == 'arr':
        for x in e[1]:
            _walk_expr(x, path, out)
    elif k == 'bin':
        _walk_expr(e[2], path, out)
        _walk_expr(e[3], path, out)
    elif k == 'un':
        _walk_expr(e[2], path, out)
    elif k in ('land', 'lor'):
        _walk_expr(e[1], path, out)
        walk_blocks(e[2], path, out)
    elif k == 'call':
        walk_blocks(e[1], path, out)
        if e[2] is not None:
            _walk_expr(e[2], path, out)
    elif k == 'ifte':
        _walk_expr(e[1], path, out)
        walk_blocks(e[2], path, out)
        walk_blocks(e[3], path, out)
    elif k == 'if':
        _walk_expr(e[1], path, out)
        walk_blocks(e[2], path, out)
    elif k == 'switch':
        _walk_expr(e[1], path, out)
        for cases, blk in e[2]:
            walk_blocks(blk, path, out)
        if e[3] is not None:
            walk_blocks(e[3], path, out)
    elif k in ('try', 'except'):
        walk_blocks(e[1], path, out)
        walk_blocks(e[2], path, out)
    elif k == 'countc':
        walk_blocks(e[1], path, out)
        _walk_expr(e[2], path, out)
    elif k in ('selectc', 'apply', 'findif'):
        _walk_expr(e[1], path, out)
        walk_blocks(e[2], path, out)


STMT_KINDS = {'trace', 'tracev', 'assign', 'private', 'params', 'exitwith', 'while', 'for', 'foreach', 'scopename', 'breakout', 'throw', 'expr', 'fault',
              'with', 'setvar', 'spawn', 'sleep', 'excprobe'}


class GenFault(Gen):
    POSITIONS = ['straight', 'straight', 'nested', 'loopcond', 'iter', 'last', 'spawn', 'exitwith', 'in-try']

    def __init__(self, rng, max_depth=3, max_stmts=25, avoid=()):
        Gen.__init__(self, rng, max_depth, max_stmts, avoid)
        self.fault = None
        self.position = None
        self.handlers = 0

    def handler(self, ctx):
        h = [('trace', self.next_site(), ('num', 0)), ('excprobe', self.next_site())]
        h += self.block(ctx, room=self.rng.randint(0, 2))
        h.append(('expr', self.anyval(ctx)))
        return h

    def program_with_fault(self, kind, position, handled):
        r = self.rng
        base = self.program()
        npre = 10
        body = base[npre:]
        site = self.next_site()
        fault = ('fault', kind, site)
        self.fault = fault
        self.position = position
        ctx = {'depth': 1, 'first': False, 'scopes': [], 'outer': None}
        blocks = []
        walk_blocks(body, [], blocks)
        placed = False
        if position == 'last':
            body.append(fault)
            target_path = []
            placed = True
        elif position == 'spawn':
            blk = [('trace', self.next_site(), ('num', 1)), fault, ('trace', self.next_site(), ('num', 2))]
            if handled:
                blk = [('tracev', self.next_site(), ('except', blk, self.handler(ctx)))] + [('trace', self.next_site(), ('num', 3))]
                self.handlers += 1
            blk = [st for st in base[:npre]] + blk   # a spawned script sees none of the starter's locals: it gets its own
            k = r.randint(0, len(body))
            body.insert(k, ('spawn', blk, None, 1))
            return base[:npre] + body
        else:
            want = {'straight': lambda p: len(p) == 0, 'nested': lambda p: len(p) >= 1,
                    'loopcond': lambda p: False, 'iter': lambda p: False, 'exitwith': lambda p: bool(p) and p[-1][0] == 'exitwith',
                    'in-try': lambda p: False}[position]
            cands = [(b, p) for b, p in blocks if want(p)]
            if position == 'loopcond':
                cands = []
                for b, p in blocks:
                    for i, s in enumerate(b):
                        if s[0] == 'while':
                            cands.append((s[1], p + [('while', b, i)]))
            if position == 'iter':
                cands = []
                for b, p in blocks:
                    if p and p[-1][0] in ('tracev', 'assign', 'expr'):
                        st = p[-1][1][p[-1][2]]
                        if _is_iter_body(st, b):
                            cands.append((b, p))
            if position == 'in-try':
                cands = []
                for b, p in blocks:
                    if p:
                        st = p[-1][1][p[-1][2]]
                        if _is_try_body(st, b):
                            cands.append((b, p))
            if cands:
                b, target_path = r.choice(cands)
                if position == 'loopcond':
                    k = r.randint(0, max(0, len(b) - 1))
                elif position == 'iter':
                    k = r.randint(0, max(0, len(b) - 1))   # never after the result expression
                else:
                    k = r.randint(0, len(b))
                b.insert(k, fault)
                placed = True
        if not placed:
            self.position = 'straight'
            k = r.randint(0, len(body))
            body.insert(k, fault)
            target_path = []
        if handled:
            # wrap an enclosing traced construct, or the whole body, in  { ... } except__ { handler }
            tv = [(kind_, lst, i) for kind_, lst, i in target_path if kind_ == 'tracev']
            nested = handled == 'nested'
            if tv and r.random() < 0.7:
                kind_, lst, i = r.choice(tv)
                st = lst[i]
                lst[i] = ('tracev', st[1], ('except', [('expr', st[2])], self.handler(ctx)))
                self.handlers += 1
                if nested:
                    body = [('tracev', self.next_site(), ('except', body, self.handler(ctx)))]
                    self.handlers += 1
            else:
                body = [('tracev', self.next_site(), ('except', body, self.handler(ctx)))]
                self.handlers += 1
                if nested:
                    body = [('tracev', self.next_site(), ('except', body, self.handler(ctx)))]
                    self.handlers += 1
            body.append(('trace', self.next_site(), ('str', 'after')))
        return base[:npre] + body


def _is_iter_body(st, b):
    def find(n):
        if isinstance(n, tuple):
            if n[0] in ('selectc', 'apply', 'findif') and n[2] is b:
                return True
            if n[0] == 'countc' and n[1] is b:
                return True
            return any(find(x) for x in n[1:])
        if isinstance(n, list) and n is not b:
            return any(find(x) for x in n)
        return False
    return find(st)


def _is_try_body(st, b):
    def find(n):
        if isinstance(n, tuple):
            if n[0] == 'try' and n[1] is b:
                return True
            return any(find(x) for x in n[1:])
        if isinstance(n, list) and n is not b:
            return any(find(x) for x in n)
        return False
    return find(st)


def run_program(block, max_steps=200000, decline_fault_in_try=False, strict_private=False):
    """main script, then every spawned script (each with an empty local chain); returns (interp, outcomes)
    outcomes: list of (script id, ('ok', v) | ('error', SqfError)) in start order; script 0 is the main script"""
    it = Interp(max_steps)
    it.decline_fault_in_try = decline_fault_in_try
    it.strict_private = strict_private
    outs = []
    it.cur_script = 0
    outs.append((0, it.run_script(block)))
    done = 0
    while done < len(it.spawned):
        blk, arg, sid = it.spawned[done]
        done += 1
        it.cur_script = sid
        outs.append((sid, it.run_script(blk, {'_this': arg, '_thisscript': 'SCRIPT'})))
    return it, outs


# ----------------------------------------------------------------------------------------------
# C03: scoping

def _case_variant(rng, name):
    out = []
    for ch in name:
        out.append(ch.upper() if rng.random() < 0.4 else ch.lower())
    return ''.join(out)


class GenScope:
    """Programs that declare, shadow, assign and read locals/globals across nested scopes. Every value written is a
    fresh integer, so a read identifies the binding it saw."""

    NAMESPACES = ['missionNamespace', 'uiNamespace', 'parsingNamespace']

    def __init__(self, rng, max_depth=4, max_stmts=40, avoid=()):
        self.rng = rng
        self.max_depth = max_depth
        self.budget = max_stmts
        self.avoid = set(avoid)
        self.site = 0
        self.val = 100
        self.features = set()
        # names drawn over the whole alphabet (boundary letters a/z weighted), digits and underscores
        alpha = 'abcdefghijklmnopqrstuvwxyz' + 'azzy'
        def mk(prefix):
            while True:
                n = prefix + ''.join(rng.choice(alpha + '_0123456789' if i else alpha) for i in range(rng.randint(1, 4)))
                yield n
        self.locals = []
        gen = mk('_u')   # never collides with the reserved names _vt, _i, _x, _this, _w<digits>
        while len(self.locals) < 3:
            n = next(gen)
            if n not in self.locals:
                self.locals.append(n)
        self.globals = []
        gen = mk('gq')
        while len(self.globals) < 3:
            n = next(gen) + str(rng.randint(0, 9))
            if n not in self.globals:
                self.globals.append(n)
        self.nsid = 0

    def next_site(self):
        self.site += 1
        return self.site

    def fresh_val(self):
        self.val += 1
        return ('num', self.val)

    def lname(self):
        return _case_variant(self.rng, self.rng.choice(self.locals))

    def gname(self):
        return _case_variant(self.rng, self.rng.choice(self.globals))

    def read(self, name):
        # reading an undefined variable yields nil (with a warning) and needs no extra scope
        if self.rng.random() < 0.2:
            return ('isnil', name)
        return ('var', name)

    def reads(self, ctx):
        r = self.rng
        names = [_case_variant(r, n) for n in self.locals + (self.globals if not ctx.get('no_globals') else [])]
        extra = [_case_variant(r, n) for n in ctx.get('magic', [])]
        return [('trace', self.next_site(), ('arr', [self.read(n) for n in names + extra]))]

    def block(self, ctx, n=None):
        out = []
        n = n if n is not None else self.rng.randint(1, 5)
        for _ in range(n):
            if self.budget <= 0:
                break
            out += self.stmt(ctx)
        return out

    def sub(self, ctx, kind, **kw):
        c = dict(ctx)
        c['depth'] = ctx['depth'] + 1
        c['bound'] = set()
        c['loop_body'] = kind in ('for', 'forEach', 'count', 'apply', 'while')
        c['in_loop'] = ctx.get('in_loop') or c['loop_body']
        c.update(kw)
        self.features.add(kind)
        return c

    def stmt(self, ctx):
        r = self.rng
        self.budget -= 1
        deep = ctx['depth'] >= self.max_depth
        flat_only = ctx.get('flat_only')
        ch = ['read', 'read', 'assign', 'assign', 'privassign', 'private', 'assignnil']
        if not ctx.get('no_globals'):
            ch += ['gassign', 'gassign', 'setvar', 'getvar']
        if not deep and not flat_only:
            ch += ['call', 'callarg', 'ifthen', 'for', 'foreach', 'count', 'apply', 'while', 'exitblock']
            if ctx['depth'] <= 1 and not ctx.get('in_spawn') and not ctx.get('in_loop'):
                ch += ['spawn']   # never inside a loop: each spawn statement starts exactly one script, so its reads can be told apart
            if not ctx.get('in_with'):
                ch += ['with', 'with']
        k = r.choice(ch)
        if k == 'read':
            return self.reads(ctx)
        if k == 'assign':
            self.features.add('assign')
            nm = self.lname()
            ctx.setdefault('bound', set()).add(nm.lower())
            return [('assign', nm, self.fresh_val(), False)]
        if k == 'assignnil':
            # nil is a value like any other: the binding stays where it is (a later plain assignment from a nested scope still lands there)
            self.features.add('assign-nil')
            nm = self.lname()
            ctx.setdefault('bound', set()).add(nm.lower())
            return [('assign', nm, ('nil',), r.random() < 0.25)]
        if k == 'privassign':
            self.features.add('private-assign')
            nm = self.lname()
            ctx.setdefault('bound', set()).add(nm.lower())
            return [('assign', nm, self.fresh_val(), True)]
        if k == 'private':
            # only names not (possibly) bound in this very scope yet: what `private "x"` does to an existing binding of the same scope is not fixed
            free = [n for n in self.locals if n not in ctx.get('bound', set())]
            if not free or ctx.get('loop_body'):
                return self.reads(ctx)
            self.features.add('private-decl')
            names = r.sample(free, min(len(free), r.choice([1, 1, 2])))
            ctx.setdefault('bound', set()).update(names)
            return [('private', [_case_variant(r, n) for n in names])]
        if k == 'gassign':
            if ctx.get('no_globals'):
                return self.reads(ctx)
            self.features.add('global-assign')
            return [('assign', self.gname(), self.fresh_val(), False)]
        if k == 'setvar':
            self.features.add('setVariable')
            return [('setvar', r.choice(self.NAMESPACES), self.gname(), self.fresh_val())]
        if k == 'getvar':
            self.features.add('getVariable')
            ns = r.choice(self.NAMESPACES)
            nm = self.gname()
            return [('tracev', self.next_site(), ('getvar', ns, nm))]
        if k == 'call':
            c2 = self.sub(ctx, 'call')
            return [('expr', ('call', self.block(c2) + self.reads(c2), None))]
        if k == 'callarg':
            c2 = self.sub(ctx, 'call-params', magic=['_this'])
            names = r.sample(self.locals, r.choice([1, 2, 3]))
            nargs = r.randint(0, 3)
            self.features.add('params-short' if nargs < len(names) else 'params')
            c2['bound'] = set(names)
            blk = [('params', [_case_variant(r, n) for n in names])] + self.block(c2) + self.reads(c2)
            return [('expr', ('call', blk, ('arr', [self.fresh_val() for _ in range(nargs)])))]
        if k == 'ifthen':
            c2 = self.sub(ctx, 'if')
            return [('expr', ('ifte', ('bool', r.random() < 0.6), self.block(c2) + self.reads(c2), self.block(c2)))]
        if k == 'for':
            c2 = self.sub(ctx, 'for')
            v = '_i'   # the loop variable is never assigned by the body (the VM reads it back; the statement does not say what then happens)
            c2 = dict(c2, magic=ctx.get('magic', []) + [v])
            return [('for', v, ('num', 1), ('num', r.choice([1, 2, 3])), None, self.block(c2) + self.reads(c2))]
        if k == 'foreach':
            c2 = self.sub(ctx, 'forEach', magic=ctx.get('magic', []) + ['_x', '_forEachIndex'])
            return [('foreach', self.block(c2) + self.reads(c2), ('arr', [self.fresh_val() for _ in range(r.randint(0, 3))]))]
        if k == 'count':
            c2 = self.sub(ctx, 'count', magic=ctx.get('magic', []) + ['_x'], flat_only=False)
            return [('tracev', self.next_site(), ('countc', self.block(c2) + self.reads(c2) + [('expr', ('bool', True))], ('arr', [self.fresh_val() for _ in range(r.randint(0, 3))])))]
        if k == 'apply':
            c2 = self.sub(ctx, 'apply', magic=ctx.get('magic', []) + ['_x'])
            return [('tracev', self.next_site(), ('apply', ('arr', [self.fresh_val() for _ in range(r.randint(0, 3))]), self.block(c2) + [('expr', self.read(self.lname()))]))]
        if k == 'while':
            c2 = self.sub(ctx, 'while')
            w = '_w%d' % self.next_site()
            n = r.randint(0, 3)
            cond = self.block(c2, r.randint(0, 1)) + [('expr', ('bin', '<', ('var', w), ('num', n)))]
            body = [('assign', w, ('bin', '+', ('var', w), ('num', 1)), False)] + self.block(c2) + self.reads(c2)
            return [('assign', w, ('num', 0), True), ('while', cond, body)]
        if k == 'exitblock':
            c2 = self.sub(ctx, 'exitWith')
            return [('expr', ('call', [('exitwith', ('bool', r.random() < 0.7), self.block(c2) + self.reads(c2))] + self.block(c2) + self.reads(c2), None))]
        if k == 'spawn':
            self.nsid += 1
            # a spawned script runs interleaved with its starter: it gets no globals, so every read is determined
            c2 = self.sub(ctx, 'spawn', in_spawn=True, in_with=True, flat_only=False, magic=['_this'], no_globals=True)
            names = r.sample(self.locals, r.choice([0, 1, 2]))
            c2['bound'] = set(names)
            blk = ([('params', [_case_variant(r, n) for n in names])] if names else []) + self.reads(c2) + self.block(c2) + self.reads(c2)
            arg = ('arr', [self.fresh_val() for _ in range(r.randint(0, 2))])
            return [('spawn', blk, arg, self.nsid)]
        if k == 'with':
            ns = r.choice(self.NAMESPACES)
            c2 = self.sub(ctx, 'with', in_with=True, flat_only=('with-nested' in self.avoid))
            if not c2['flat_only']:
                self.features.add('with-nested')
            return [('with', ns, self.block(c2) + self.reads(c2))]
        raise ValueError(k)

    def program(self):
        ctx = {'depth': 0}
        body = self.reads(ctx) + self.block(ctx, self.rng.randint(4, 9))
        while self.budget > 3 and len(body) < 14:
            body += self.block(ctx, 2)
        return body + self.reads(ctx)
