"""Shared driver code: builds, worker pool with crash journal, sanitizer report parsing,
verdicts, known findings, evidence files."""
import hashlib
import json
import os
import random
import re
import select
import subprocess
import sys
import threading
import time

VERIF = os.path.dirname(os.path.dirname(os.path.abspath(__file__)))
REPO = os.environ.get('VERIF_REPO', '/repo')
BUILD_ROOT = os.environ.get('VERIF_BUILD_ROOT', os.path.join(VERIF, '.build'))
NWORKERS = int(os.environ.get('VERIF_WORKERS', '16'))
# where evidence/ and replays/ go (the mutant sweep points this away from the committed evidence)
OUT = os.environ.get('VERIF_OUT', VERIF)

ASAN_OPTIONS = ('abort_on_error=1:detect_leaks=0:allocator_may_return_null=0:max_allocation_size_mb=512:'
                'handle_abort=1:detect_stack_use_after_return=0:symbolize=1:print_summary=1:malloc_context_size=12')
UBSAN_OPTIONS = 'print_stacktrace=1:halt_on_error=1:abort_on_error=1:symbolize=1'


class HarnessError(Exception):
    pass


def seed():
    try:
        return int(os.environ.get('VERIF_SEED', '1'))
    except ValueError:
        return 1


def tier(argv_tier=None):
    t = argv_tier or os.environ.get('VERIF_TIER') or 'quick'
    return 'thorough' if t == 'thorough' else 'quick'


def rng(*salt):
    h = hashlib.sha256(('%d|' % seed() + '|'.join(str(s) for s in salt)).encode()).digest()
    return random.Random(int.from_bytes(h[:8], 'little'))


def build(flavour='asan', target='vh'):
    """(Re)build one harness flavour from /repo's current working tree. Raises HarnessError on failure."""
    t0 = time.time()
    p = subprocess.run([os.path.join(VERIF, 'build.sh'), flavour, target], stdout=subprocess.PIPE, stderr=subprocess.STDOUT)
    if p.returncode != 0:
        sys.stdout.write(p.stdout.decode('latin-1')[-4000:])
        raise HarnessError('build of flavour %s failed' % flavour)
    return os.path.join(BUILD_ROOT, flavour, target), time.time() - t0


# ----------------------------------------------------------------------------------------------
# sanitizer report parsing

_FRAME = re.compile(r'^\s*#(\d+) 0x[0-9a-f]+ in (.+?) (/[^\s:]+)(?::(\d+))?(?::\d+)?\s*$')
_FRAME_NOSRC = re.compile(r'^\s*#(\d+) 0x[0-9a-f]+ in (.+?) \(')


def _short_fn(fn):
    fn = re.sub(r'\(anonymous namespace\)::', '', fn)
    fn = re.sub(r'\(.*$', '', fn)
    fn = re.sub(r'<.*>', '<>', fn)
    return fn.strip()


def parse_sanitizer(stderr_text):
    """Returns dict(kind, frame_fn, frame_file, summary) from a sanitizer / abort report, or None."""
    if not stderr_text:
        return None
    kind = None
    m = re.search(r'ERROR: (AddressSanitizer|ThreadSanitizer|LeakSanitizer): ([A-Za-z0-9_\- ]+?)(?: on | \(|:|$)', stderr_text, re.M)
    if m:
        kind = 'asan:' + m.group(2).strip().replace(' ', '-')
        if 'requested allocation size' in stderr_text:
            kind = 'asan:allocation-size-too-big'
    else:
        m = re.search(r'runtime error: (.+)$', stderr_text, re.M)
        if m:
            msg = m.group(1)
            msg = re.sub(r'0x[0-9a-f]+', 'ADDR', msg)
            msg = re.sub(r'-?(inf|nan)\b', 'N', msg)
            msg = re.sub(r'-?\d+(\.\d+)?(e[+-]?\d+)?', 'N', msg)
            msg = re.sub(r"'[^']*'", 'T', msg)
            kind = 'ubsan:' + msg.strip()[:80]
        else:
            m = re.search(r"terminate called after throwing an instance of '([^']+)'", stderr_text)
            if m:
                kind = 'terminate:' + m.group(1)
    if kind is None:
        return None
    fn = ''
    ffile = ''
    started = False
    first = None
    for line in stderr_text.splitlines():
        fm = _FRAME.match(line)
        if fm:
            started = True
            path = fm.group(3)
            if '/src/' in path and '/harness/' not in path and '/include/c++' not in path and '/bits/' not in path and '/lib/' not in path:
                cand = (_short_fn(fm.group(2)), os.path.basename(path))
                if first is None:
                    first = cand
                if path.endswith('.cpp') or path.endswith('.cc'):
                    fn, ffile = cand
                    break
        elif started and not _FRAME_NOSRC.match(line) and line.strip() == '':
            break  # end of first stack
    if not fn and first:
        fn, ffile = first
    return {'kind': kind, 'fn': fn, 'file': ffile, 'sig': '%s|%s|%s' % (kind, fn, ffile)}


# ----------------------------------------------------------------------------------------------
# worker pool

def parse_tsan(text):
    """ThreadSanitizer report blocks -> list of {kind, sig, summary, head}; sig = kind + the innermost in-repo/harness frames of the two accesses, line numbers stripped"""
    out = []
    for block in re.split(r'(?m)^={18}\s*$', text):
        m = re.search(r'WARNING: ThreadSanitizer: ([^\n(]+)', block)
        if not m:
            continue
        kind = m.group(1).strip()
        fns = []
        for part in re.split(r'\n\s*\n', block):
            if not re.match(r'\s*(Read|Write|Previous|Atomic|Mutex|Thread|Location|As if)', part.strip(), re.I) and 'WARNING' not in part:
                continue
            for fm in _FRAME.finditer(part) if False else re.finditer(r'(?m)^\s*#\d+ (?:0x[0-9a-f]+ in )?(.+?) (/[^\s:]+)(?::(\d+))?', part):
                fn, path = fm.group(1), fm.group(2)
                if ('/src/' in path or '/harness/' in path) and '/include/c++' not in path and '/bits/' not in path and '/lib/' not in path:
                    fns.append(_short_fn(fn) + '@' + os.path.basename(path))
                    break
        sm = re.search(r'SUMMARY: ThreadSanitizer: ([^\n]*)', block)
        sig = 'tsan:%s|%s' % (kind, '|'.join(sorted(set(fns[:2]))))
        out.append({'kind': kind, 'sig': sig, 'summary': sm.group(1) if sm else '', 'head': block.strip()[:2500]})
    return out


_VG_ERR = re.compile(r'^==\d+== (Invalid (?:read|write|free)[^\n]*|Conditional jump or move depends on uninitialised value\(s\)|Use of uninitialised value[^\n]*|'
                     r'Syscall param [^\n]*|Mismatched free\(\)[^\n]*|Source and destination overlap[^\n]*|Argument \'[^\n]*|Jump to the invalid address[^\n]*|'
                     r'Process terminating with default action of signal \d+[^\n]*)$', re.M)


def parse_memcheck(text):
    """valgrind memcheck error blocks -> list of {kind, sig, head}; sig = kind (sizes stripped) + the innermost frame inside the repository sources.
    Blocks whose stack never enters the repository sources (harness, libc start-up) are returned with an empty frame and judged by the caller."""
    out = []
    ms = list(_VG_ERR.finditer(text))
    for k, m in enumerate(ms):
        block = text[m.start(): ms[k + 1].start() if k + 1 < len(ms) else len(text)]
        kind = re.sub(r'\d+', 'N', m.group(1)).strip()
        fn = ffile = ''
        for fm in re.finditer(r'(?m)^==\d+==\s+(?:at|by) 0x[0-9A-F]+: (.+?) \(([^():]+):(\d+)\)\s*$', block):
            name, fname = fm.group(1), fm.group(2)
            if fname.endswith(('.cpp', '.cc', '.h', '.hpp', '.hh')) and not fname.startswith(('main.cpp', 'vm.cpp', 'extra.cpp', 'vclock.cpp', 'json.h', 'vg_', 'stl_', 'basic_string', 'new_allocator', 'alloc_traits', 'char_traits')) and '/' not in fname:
                fn, ffile = _short_fn(name), fname
                break
            if ' uninitialised value was created' in block[:fm.start()]:
                break
        out.append({'kind': kind, 'fn': fn, 'file': ffile, 'sig': 'memcheck:%s|%s|%s' % (kind, fn, ffile), 'head': block.strip()[:3000]})
    return out


class Death(dict):
    """Result of a case whose worker died: kind in signal | cpu-timeout | wall-timeout."""
    pass


EOF = object()


class _Worker:
    def __init__(self, binary, idx, extra_env=None, args=(), cwd=None, wrapper=()):
        self.binary = binary
        self.wrapper = list(wrapper)
        self.idx = idx
        self.proc = None
        self.errpath = os.path.join(BUILD_ROOT, 'tmp', 'w%d_%d.err' % (os.getpid(), idx))
        os.makedirs(os.path.dirname(self.errpath), exist_ok=True)
        self.extra_env = extra_env or {}
        self.args = list(args)
        self.cwd = cwd
        self.buf = b''

    def start(self):
        env = dict(os.environ)
        env['ASAN_OPTIONS'] = ASAN_OPTIONS
        env['UBSAN_OPTIONS'] = UBSAN_OPTIONS
        env.setdefault('TSAN_OPTIONS', 'halt_on_error=0:second_deadlock_stack=1:history_size=4')
        env.update(self.extra_env)
        self.errf = open(self.errpath, 'wb')
        self.proc = subprocess.Popen(self.wrapper + [self.binary] + self.args, stdin=subprocess.PIPE, stdout=subprocess.PIPE, stderr=self.errf, env=env, bufsize=0, cwd=self.cwd)
        self.buf = b''
        self.err_off = 0

    def stop(self):
        if self.proc:
            try:
                self.proc.stdin.close()
            except Exception:
                pass
            try:
                self.proc.wait(timeout=20)
            except Exception:
                self.proc.kill()
                self.proc.wait()
            self.proc = None
            try:
                self.errf.close()
            except Exception:
                pass
        try:
            os.unlink(self.errpath)
        except OSError:
            pass

    def _readline(self, deadline):
        while b'\n' not in self.buf:
            left = deadline - time.time()
            if left <= 0:
                return None
            r, _, _ = select.select([self.proc.stdout], [], [], min(left, 5.0))
            if r:
                chunk = os.read(self.proc.stdout.fileno(), 1 << 16)
                if not chunk:
                    return EOF
                self.buf += chunk
        line, self.buf = self.buf.split(b'\n', 1)
        return line

    def _stderr_text(self):
        try:
            self.errf.flush()
        except Exception:
            pass
        try:
            with open(self.errpath, 'rb') as f:
                data = f.read()
            if len(data) > 260000:
                data = data[:60000] + b'\n...<cut>...\n' + data[-200000:]
            return data.decode('latin-1')
        except OSError:
            return ''

    def _restart(self):
        try:
            self.proc.kill()
        except Exception:
            pass
        try:
            self.proc.wait(timeout=10)
        except Exception:
            pass
        try:
            self.errf.close()
        except Exception:
            pass
        self.start()

    def run_case(self, case, wall_s):
        if self.proc is None or self.proc.poll() is not None:
            if self.proc is not None:
                self._restart()
            else:
                self.start()
        data = (json.dumps(case, ensure_ascii=True) + '\n').encode('ascii')
        try:
            self.proc.stdin.write(data)
            self.proc.stdin.flush()
        except (BrokenPipeError, OSError):
            pass
        deadline = time.time() + wall_s
        cid = case['id']
        step = None
        while True:
            line = self._readline(deadline)
            if line is None:
                err = self._stderr_text()
                self._restart()
                return Death(kind='wall-timeout', stderr=err[-4000:], step=step)
            if line is EOF:
                rc = None
                try:
                    rc = self.proc.wait(timeout=30)
                except Exception:
                    pass
                err = self._stderr_text()
                self._restart()
                d = Death(kind='signal', rc=rc, stderr=err, step=step)
                d['san'] = parse_sanitizer(err)
                if self.wrapper:
                    d['memcheck'] = parse_memcheck(err)
                return d
            if line.startswith(b'R '):
                sp = line.split(b' ', 2)
                if int(sp[1]) != cid:
                    raise HarnessError('protocol: result for %s while running %s' % (sp[1], cid))
                r = json.loads(sp[2].decode('ascii'))
                # sanitizer output that did not kill the process (TSan reports): what this case added to stderr
                try:
                    with open(self.errpath, 'rb') as f:
                        f.seek(self.err_off)
                        new = f.read()
                    self.err_off += len(new)
                    if b'ThreadSanitizer' in new:
                        r['tsan'] = parse_tsan(new.decode('latin-1'))
                    if self.wrapper and b'==' in new:
                        mc = parse_memcheck(new.decode('latin-1'))
                        if mc:
                            r['memcheck'] = mc
                except OSError:
                    pass
                if case.get('exit_after'):
                    # the harness leaves after this case: wait for it so that the next case finds a fresh process
                    try:
                        self.proc.wait(timeout=30)
                    except Exception:
                        pass
                return r
            if line.startswith(b'T '):
                err = self._stderr_text()
                try:
                    self.proc.wait(timeout=30)
                except Exception:
                    pass
                self._restart()
                return Death(kind='cpu-timeout', stderr=err[-2000:], step=step)
            if line.startswith(b'E '):
                raise HarnessError('harness rejected case: %s' % line.decode('latin-1'))
            if line.startswith(b'S '):
                try:
                    step = int(line.split(b' ')[2])
                except (IndexError, ValueError):
                    pass
            # 'B id' or noise printed by the VM to stdout: ignore


MEMCHECK = ('valgrind', '-q', '--tool=memcheck', '--error-exitcode=0', '--track-origins=no', '--num-callers=24', '--undef-value-errors=yes',
            '--leak-check=no', '--read-var-info=no', '--error-limit=no')
# CPU budgets are process CPU time (ITIMER_PROF), which under valgrind includes the instrumentation: scale them
MEMCHECK_SLOWDOWN = 60


class Runner:
    """Runs cases on a pool of vh workers. Each case is a dict with 'steps' (id is assigned here)."""

    def __init__(self, flavour='asan', workers=None, extra_env=None, args=(), cwd=None, wrapper=()):
        self.wrapper = wrapper
        self.flavour = flavour
        self.binary, self.build_s = build(flavour)
        self.nworkers = workers or NWORKERS
        self.extra_env = extra_env
        self.args = args
        self.cwd = cwd

    def run(self, cases, cpu_ms=20000, wall_s=None, retry_timeouts=True, progress=None):
        n = len(cases)
        results = [None] * n
        for i, c in enumerate(cases):
            c['id'] = i
            c.setdefault('cpu_ms', cpu_ms)
        lock = threading.Lock()
        nxt = [0]
        errors = []
        nw = max(1, min(self.nworkers, n))

        def work(widx):
            w = _Worker(self.binary, widx, self.extra_env, self.args, self.cwd, self.wrapper)
            try:
                while True:
                    with lock:
                        i = nxt[0]
                        if i >= n:
                            break
                        nxt[0] += 1
                    ws = wall_s or (cases[i]['cpu_ms'] / 1000.0 * 4 + 60)
                    r = w.run_case(cases[i], ws)
                    if isinstance(r, Death) and r['kind'] in ('cpu-timeout', 'wall-timeout') and retry_timeouts:
                        r2 = w.run_case(cases[i], ws)
                        if isinstance(r2, Death) and r2['kind'] == r['kind']:
                            r = r2
                            r['reproduced'] = True
                        elif isinstance(r2, Death):
                            r = r2
                        else:
                            r = Death(kind='inconclusive', first=r['kind'])
                    results[i] = r
                    if progress and i % progress == 0:
                        sys.stderr.write('  .. %d/%d\n' % (i, n))
            except Exception as ex:  # noqa
                errors.append(ex)
            finally:
                w.stop()

        ths = [threading.Thread(target=work, args=(k,)) for k in range(nw)]
        for t in ths:
            t.start()
        for t in ths:
            t.join()
        if errors:
            raise HarnessError('worker failed: %r' % errors[0])
        return results


# ----------------------------------------------------------------------------------------------
# helpers over step results

LV_FATAL, LV_ERROR, LV_WARN, LV_INFO = 0, 1, 2, 3


def logs_of(step):
    return step.get('logs', []) if isinstance(step, dict) else []


def diag_values(logs):
    """texts of diag_log outputs in order"""
    out = []
    for l in logs:
        if l[1] == 60019:
            t = l[2]
            k = t.find('[DIAG_LOG] ')
            out.append(t[k + 11:] if k >= 0 else t)
    return out


def error_logs(logs):
    return [l for l in logs if 0 <= l[0] <= LV_ERROR]


def context_values(logs):
    out = []
    for l in logs:
        if l[1] == 60095:
            m = re.match(r'Context dropped with return value `(.*)`\.$', l[2], re.S)
            out.append(m.group(1) if m else l[2])
    return out


def sqf_str(s):
    """SQF string literal for a python str of latin-1 chars."""
    return '"' + s.replace('"', '""') + '"'


# ----------------------------------------------------------------------------------------------
# known findings, verdicts, evidence

class Findings:
    def __init__(self, prop):
        self.prop = prop
        path = os.path.join(VERIF, 'known_findings.json')
        self.open = []
        self.fixed = []
        if os.path.exists(path):
            with open(path) as f:
                d = json.load(f)
            self.open = [e for e in d.get('open', []) if e['property'] == prop]
            self.fixed = [e for e in d.get('fixed', []) if e['property'] == prop]

    def by_id(self, fid):
        for e in self.open:
            if e['id'] == fid:
                return e
        return None

    def is_open(self, fid):
        return self.by_id(fid) is not None

    def signatures(self):
        s = {}
        for e in self.open:
            for sig in e.get('signatures', []):
                s[sig] = e
        return s


class Check:
    """Bookkeeping for one run of one check."""

    def __init__(self, prop, level, tier_name):
        self.prop = prop
        self.level = level
        self.tier = tier_name
        self.t0 = time.time()
        self.findings = Findings(prop)
        self.violations = []       # (key, description, replay dict)
        self.known_hits = {}       # finding id -> description
        self.inconclusive = 0
        self.evaluations = 0
        self.signatures = set()
        self.samples = []
        self.counters = {}
        self.notes = []
        self.harness_errors = []

    def count(self, name, k=1):
        self.counters[name] = self.counters.get(name, 0) + k

    def sample(self, s, limit=6):
        if len(self.samples) < limit:
            self.samples.append(s)

    def sig(self, s):
        self.signatures.add(s)

    def known(self, fid, what=None):
        e = self.findings.by_id(fid)
        if e is None:
            return False
        self.known_hits[fid] = what or e['what']
        return True

    def known_by_sig(self, sig):
        for pat, e in self.findings.signatures().items():
            if re.fullmatch(pat, sig):
                self.known_hits[e['id']] = e['what']
                return True
        return False

    def violation(self, key, desc, replay):
        """key: stable identifier of the kind of violation (used to de-duplicate)."""
        for k, _, _ in self.violations:
            if k == key:
                self.count('violations_duplicate')
                return
        self.violations.append((key, desc, replay))

    def death_is_violation(self, death, case_desc, replay, sig_prefix='', sig_suffix=''):
        """Route a worker death through known-finding signatures. Returns True if it was recorded (either way)."""
        kind = death['kind']
        if kind == 'inconclusive' or kind == 'wall-timeout' or kind == 'skipped':
            self.inconclusive += 1
            return True
        if kind == 'cpu-timeout':
            sig = 'hang|' + sig_prefix
        else:
            san = death.get('san')
            if san:
                sig = san['sig'] + (('|' + sig_suffix) if sig_suffix else '')
            else:
                sig = 'died|rc=%s|%s' % (death.get('rc'), sig_prefix)
        death['sig'] = sig
        sigs = self.findings.signatures()
        for pat, e in sigs.items():
            if re.fullmatch(pat, sig):
                self.known_hits[e['id']] = e['what']
                self.count('known_signature_hits')
                return True
        self.violation(sig, '%s: %s' % (sig, case_desc), dict(replay, death={k: v for k, v in death.items() if k != 'stderr'}, stderr_tail=death.get('stderr', '')[-3000:]))
        return True

    def finish(self, rule, min_evaluations=1, assumptions=None, extra=None, exhaustive=False):
        wall = time.time() - self.t0
        os.makedirs(os.path.join(OUT, 'evidence'), exist_ok=True)
        cov = {
            'evaluations': int(self.evaluations),
            'distinct_nontrivial': int(len(self.signatures)),
            'rule': rule,
            'samples': self.samples[:8] if self.samples else ['<none>'],
            'inconclusive': int(self.inconclusive),
            'monitor_counters': self.counters,
            'known_findings_reproduced': sorted(self.known_hits.keys()),
            'avoid_switches': sorted(e['avoid'] for e in self.findings.open if e.get('avoid')),
        }
        if exhaustive:
            cov['exhaustive'] = True
        if extra:
            cov.update(extra)
        ev = {
            'property_id': self.prop,
            'tier': self.tier,
            'seed': seed(),
            'level': self.level,
            'coverage': cov,
            'assumptions': assumptions or [],
            'wall_s': round(wall, 2),
            'violations': len(self.violations),
        }
        with open(os.path.join(OUT, 'evidence', self.prop + '.json'), 'w') as f:
            json.dump(ev, f, indent=1, ensure_ascii=True)
        for fid, what in sorted(self.known_hits.items()):
            print('KNOWN-FINDING: property=%s %s: %s' % (self.prop, fid, what))
        for n in self.notes:
            print('note: ' + n)
        rc = 0
        import shutil
        shutil.rmtree(os.path.join(OUT, 'replays', self.prop), ignore_errors=True)
        if self.violations:
            os.makedirs(os.path.join(OUT, 'replays', self.prop), exist_ok=True)
            with open(os.path.join(OUT, 'replays', self.prop, '_summary.json'), 'w') as f:
                json.dump([{'key': k, 'desc': d[:300]} for k, d, _ in self.violations], f, indent=1, ensure_ascii=True)
            for key, desc, replay in self.violations[:10]:
                h = hashlib.sha1(key.encode('latin-1', 'replace')).hexdigest()[:12]
                path = os.path.join(OUT, 'replays', self.prop, h + '.json')
                with open(path, 'w') as f:
                    json.dump({'property': self.prop, 'key': key, 'description': desc, 'seed': seed(), 'replay': replay}, f, indent=1, ensure_ascii=True)
                print('VIOLATION property=%s replay=%s' % (self.prop, path))
                print('  ' + desc[:600].replace('\n', '\n  '))
            rc = 1
        elif self.harness_errors:
            for h in self.harness_errors[:5]:
                print('HARNESS-ERROR: ' + h)
            rc = 2
        elif self.evaluations < min_evaluations or len(self.signatures) < 2:
            print('HARNESS-ERROR: monitors observed too little (evaluations=%d distinct=%d)' % (self.evaluations, len(self.signatures)))
            rc = 2
        print('%s %s: evaluations=%d distinct=%d inconclusive=%d violations=%d known=%d wall=%.1fs counters=%s' % (
            self.prop, self.tier, self.evaluations, len(self.signatures), self.inconclusive, len(self.violations), len(self.known_hits), wall,
            json.dumps(self.counters, sort_keys=True)))
        return rc


# ----------------------------------------------------------------------------------------------
# batched execution with per-item attribution

def run_items(runner, prefix_steps, items, batch=25, base_cpu_ms=4000, item_cpu_ms=None, counters=None, max_deaths=60):
    """items: list of step lists. Items are run `batch` at a time behind `prefix_steps` (one case each batch,
    with the step journal on). A batch whose worker dies is split: the item that was executing is re-run
    alone (fresh VM) and judged by that run; the items before and after it are re-run in new batches.
    Returns a list aligned with items: list of that item's step results, or a Death.
    A Death carries 'seq_only': True when the item only failed after its batch predecessors."""
    n = len(items)
    out = [None] * n
    npre = len(prefix_steps)

    def cpu(idx_list):
        t = base_cpu_ms
        for i in idx_list:
            t += item_cpu_ms(items[i]) if item_cpu_ms else 400
        return int(t)

    def mk(idx_list):
        steps = list(prefix_steps)
        for i in idx_list:
            steps += items[i]
        return {'steps': steps, 'cpu_ms': cpu(idx_list), 'journal_steps': True}

    groups = [list(range(i, min(n, i + batch))) for i in range(0, n, batch)]
    suspects = []  # (item index, death in batch)
    rounds = 0
    while groups:
        rounds += 1
        if rounds > 60:
            raise HarnessError('run_items: batches keep dying')
        if len(suspects) > max_deaths:
            # the tree under test is evidently broken: the deaths seen so far are reported, the rest is not explored
            for g in groups:
                for i in g:
                    if out[i] is None:
                        out[i] = Death(kind='skipped')
            if counters is not None:
                counters['items_skipped_after_many_deaths'] = sum(len(g) for g in groups)
            break
        t_round = time.time()
        results = runner.run([mk(g) for g in groups])
        if os.environ.get('VERIF_DEBUG'):
            sys.stderr.write('run_items round %d: %d groups, %d items, %d deaths, %.1fs\n' % (rounds, len(groups), sum(len(g) for g in groups), sum(1 for r in results if isinstance(r, Death)), time.time() - t_round))
        nxt = []
        for g, r in zip(groups, results):
            if isinstance(r, Death):
                k = r.get('step')
                j = None
                if k is not None and k >= npre:
                    acc = npre
                    for pos, i in enumerate(g):
                        acc += len(items[i])
                        if k < acc:
                            j = pos
                            break
                if j is None:
                    if len(g) == 1:
                        out[g[0]] = r
                    else:
                        h = len(g) // 2
                        nxt.append(g[:h])
                        nxt.append(g[h:])
                    continue
                if len(g) == 1:
                    out[g[0]] = r
                    continue
                suspects.append((g[j], r))
                if g[:j]:
                    nxt.append(g[:j])
                if g[j + 1:]:
                    nxt.append(g[j + 1:])
                if counters is not None:
                    counters['batch_deaths'] = counters.get('batch_deaths', 0) + 1
                continue
            pos = npre
            res = r['res']
            for i in g:
                out[i] = res[pos:pos + len(items[i])]
                pos += len(items[i])
        groups = nxt
    if suspects:
        results = runner.run([mk([i]) for i, _ in suspects])
        for (i, first), r in zip(suspects, results):
            if isinstance(r, Death):
                out[i] = r
            else:
                d = Death(first)
                d['seq_only'] = True
                out[i] = d
    return out


# ----------------------------------------------------------------------------------------------
# valgrind memcheck pass (uninitialised reads and accesses the red-zone sanitizers do not see)

def run_memcheck(items, prefix_steps=(), batch=6, item_cpu_ms=1500, base_cpu_ms=6000):
    """Runs items (step lists) on the plain flavour under valgrind memcheck. Returns (reports, deaths, n_run) where reports is a list of
    (item index, memcheck report) with one entry per distinct signature and item, deaths a list of (item index, Death).
    A batch that produced a report is re-run item by item so that the report is attributed to the item that causes it alone."""
    runner = Runner('plain', wrapper=MEMCHECK)
    prefix_steps = list(prefix_steps)

    def mk(idx_list):
        steps = list(prefix_steps)
        for i in idx_list:
            steps += items[i]
        return {'steps': steps, 'cpu_ms': int((base_cpu_ms + item_cpu_ms * len(idx_list)) * MEMCHECK_SLOWDOWN)}

    groups = [list(range(i, min(len(items), i + batch))) for i in range(0, len(items), batch)]
    results = runner.run([mk(g) for g in groups], retry_timeouts=False)
    singles = []
    by_sig = {}     # valgrind prints an error context once per process: a report seen in a batch may not show again in the single re-run
    for g, r in zip(groups, results):
        if isinstance(r, Death) or r.get('memcheck'):
            singles += g
            for rep in r.get('memcheck') or []:
                by_sig.setdefault(rep['sig'], (g[0], dict(rep, attributed_to_batch=g)))
    deaths = []
    if singles:
        results = runner.run([dict(mk([i]), exit_after=True) for i in singles], retry_timeouts=False)
        for i, r in zip(singles, results):
            if isinstance(r, Death):
                deaths.append((i, r))
            for rep in r.get('memcheck') or []:
                if rep['sig'] not in by_sig or 'attributed_to_batch' in by_sig[rep['sig']][1]:
                    by_sig[rep['sig']] = (i, rep)
    return sorted(by_sig.values(), key=lambda t: t[0]), deaths, len(items)
