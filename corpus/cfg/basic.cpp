class Base {
    num = 1;
    neg = -2.5;
    str = "text";
    bare = some text here;
    arr[] = {1, "two", {3, 4}, {}};
    class Inner { v = 1; class Deeper { w = "x"; }; };
    class Empty {};
};
class Derived : Base {
    num = 2;
    arr[] += {5, 6};
    class Inner : Inner { v = 2; };
    delete Empty;
    class Fwd;
    class Own { hex = 0x1F; sci = 1e3; };
};
class Base { added = "reopened"; };
class Third : Derived { arr[] += {"z"}; q = 'single'; };
