class F { x = 5; s = "str"; a[] = {1}; };
class G : F { x[] += {1}; s[] += {"t"}; a[] += {2}; n[] += {3}; };
class H : G { x = "s"; a[] += {{4}}; };
