class Q { y = ; w = bare words; };
