class A;
class B : A { x[] = {1,{2,{3,{4}}}}; z = "un""quoted"; };
class C { class D : B {}; class E : D { x[] += {9}; }; n = +5; m = 1.5e-3; };
delete A;
