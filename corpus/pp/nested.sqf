#define A(x) B(x) + 1
#define B(y) [y, C]
#define C 7
#define MULTI(a,b,c) a = b; \
    c = a;
#ifdef C
#ifdef NOT_DEFINED
#define HIDDEN 1
dead = HIDDEN;
#else
live = A(C);
#endif
#endif
MULTI(p, 2, q)
k = __EVAL(1 + 2);
#include "inc\one.hpp"
after = INC_ONE;
