#include "inc\self.hpp"
x = 1;
