#include "inc\mut_a.hpp"
x = 1;
