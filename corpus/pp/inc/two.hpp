#define INC_TWO 22
deep = INC_TWO;
