mb = 1;
#include "mut_a.hpp"
