#define INC_ONE 11
included_line = __LINE__; included_file = __FILE__;
#include "two.hpp"
