selfstart = 1;
#include "self.hpp"
