ma = 1;
#include "mut_b.hpp"
