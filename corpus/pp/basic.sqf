#define ONE 1
#define TWO (ONE + ONE)
#define ADD(a,b) ((a) + (b))
#define STR(x) #x
#define CAT(a,b) a##b
#define EMPTY
// line comment with ONE and "quote
/* block
   comment TWO */
x = ADD(ONE, TWO); y = STR(hello world); z = CAT(va,lue);
s = "ONE inside // string /* stays */ ADD(1,2)";
t = 'single ONE';
#ifdef ONE
a = 1;
#else
a = 2;
#endif
#ifndef NOPE
b = __LINE__; c = __FILE__;
#endif
#undef ONE
d = ONE;
long = ADD(ADD(1,2), \
   ADD(3,4));
e = ADD([1,2], {3,4}); f = ADD((1,2), "a,b"); h = EMPTY;
